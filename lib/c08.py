"""C08: branches, loops, break/continue/return do what their syntax says."""
import interpcheck

WHY = "return/break/continue directly inside the body of a try runs the catch block instead of leaving the function / loop"
EXPECT = [
    {"src": "func f() { try { return 1 } catch { return 2 } }\nf()", "field": "result", "want": "i:1", "finding": "signal-in-try", "why": WHY},
    {"src": "func f() { try { return 1 } catch { }; return 2 }\nf()", "field": "result", "want": "i:1", "finding": "signal-in-try", "why": WHY},
    {"src": "r = 0; for i in [1, 2, 3] { try { break } catch { }; r = r + 1 }; r", "field": "result", "want": "i:0", "finding": "signal-in-try", "why": WHY},
    {"src": "r = 0; for i in [1, 2, 3] { try { continue } catch { }; r = r + 1 }; r", "field": "result", "want": "i:0", "finding": "signal-in-try", "why": WHY},
    {"src": "func f() { for i in [1, 2, 3] { for j in [1, 2] { if j == 2 { return i * 10 + j } } }; return 0 }\nf()", "field": "result", "want": "i:12",
     "why": "return ends the invocation from nested loops"},
    {"src": "r = []; for i = 0; i < 3; i++ { if i == 1 { continue }; r += i }; r", "field": "result", "want": "[i:0,i:2]",
     "why": "a C-style loop runs its post expression after continue"},
    {"src": "r = []; for i in [1, 2, 3] { for j in [1, 2, 3] { if j == 2 { break }; r += i * 10 + j } }; r", "field": "result",
     "want": "[i:11,i:21,i:31]", "why": "break acts on the innermost loop only"},
    {"src": "r = []; for i in [1, 2, 3] { switch i {\ncase 2: break\n}; r += i }; r", "field": "result", "want": "[i:1]",
     "why": "break inside a switch case acts on the enclosing loop"},
    {"src": "func f() { return }\nfunc g() { return 1, 2 }\n[f(), g()]", "field": "result", "want": "[nil,[i:1,i:2]]",
     "why": "return yields nil for no value and a list for several"},
    {"src": "r = []; switch 2 {\ncase 1: r += 1\ncase 2, 3: r += 2\ncase 2: r += 22\ndefault: r += 9\n}; switch 7 {\ncase 1: r += 1\ndefault: r += 9\n}; r",
     "field": "result", "want": "[i:2,i:9]", "why": "switch runs exactly the first equal case, else the default"},
]


# every loop form x {return a value, break, continue} x nesting inside an if / an inner loop: the expected
# result is known by construction (the property's own rule)
LOOPS = [
    ("for x in [1, 2, 3]", "x", [1, 2, 3]), ("for k in {\"a\": 5}", "k", None), ("for k, x in {\"a\": 5}", "x", [5]),
    ("for x = 1; x < 4; x++", "x", [1, 2, 3]), ("x = 0; for x < 3", "(x = x + 1)", None), ("x = 0; for", "(x = x + 1)", None),
]

# switch compares its cases with the subject as it was when the switch was entered: a case expression that writes to the
# place the subject was read from (a list slot, an element of a typed slice, a map entry) does not move it
for _init, _read, _write in (("a = [1]", "a[0]", "a[0] = 9"), ("a = make([]int64, 1); a[0] = 1", "a[0]", "a[0] = 9"), ("a = {\"k\": 1}", "a.k", "a.k = 9"),
                             ("a = [[1]]", "a[0][0]", "a[0][0] = 9")):
    EXPECT.append({"src": "%s\ns = 0\nswitch %s {\ncase func() { %s; return 9 }(): s = 1\ncase 1: s = 2\ndefault: s = 3\n}\ns" % (_init, _read, _write), "field": "result",
                   "want": "i:2", "why": "switch runs the first case equal to its subject; the subject is the value at the switch statement"})
    EXPECT.append({"src": "%s\ns = 0\nfunc touch() { %s; return 5 }\nswitch %s {\ncase touch(), 9: s = 1\ndefault: s = 3\n}\ns" % (_init, _write, _read), "field": "result",
                   "want": "i:3", "why": "a later value of the same case list is compared with the subject as it was, too"})

# for-in over a map visits every entry once - also an entry whose key is NaN, which no lookup can find again
for _src, _want, _why in (
        ("m = {}; m[0.0/0.0] = 1; m[1] = 2; n = 0; s = 0\nfor k, v in m { n++; s += v }\n[n, s]", "[i:2,i:3]", "a NaN key is an entry like any other"),
        ("m = {}; m[0.0/0.0] = 1; m[0.0/0.0] = 2; m[\"a\"] = 4; n = 0; s = 0\nfor k, v in m { n++; s += v }\n[n, s, len(m)]", "[i:3,i:7,i:3]", "two NaN keys are two entries"),
        ("m = {}; m[0.0/0.0] = 1; n = 0\nfor k in m { n++ }\nn", "i:1", "the one-variable form visits a NaN key, too")):
    EXPECT.append({"src": _src, "field": "result", "want": _want, "why": "for-in over a map visits every entry once: " + _why})
# for-in visits the elements themselves: a pointer or a module in the list is what the loop variable holds
for _src, _want, _why in (
        ("p = new(int64); *p = 5\nr = []\nfor v in [p] { r += (v == p); *v = 6 }\nr += *p\nr", "[b:true,i:6]", "a pointer element is handed to the loop variable as the pointer it is"),
        ("module a { func who() { return \"a\" } }\nmodule b { func who() { return \"b\" } }\nr = []\nfor m in [a, b] { r += m.who() }\nr", "[s:61,s:62]",
         "a module element is handed to the loop variable as the module it is"),
        ("c = make(chan interface, 2); p = new(int64); *p = 7; c <- p; close(c)\nr = []\nfor v in c { r += (v == p); r += *v }\nr", "[b:true,i:7]",
         "a pointer received in a for-in over a channel is the pointer that was sent"),
        ("e0 = nil; try { throw \"x\" } catch q { e0 = q }\nr = \"\"\nfor v in [e0] { try { throw v } catch w { r = \"rethrown\" } }\nr", "s:7265746872 6f776e".replace(" ", ""),
         "an error value in a list is still an error value in the loop variable")):
    EXPECT.append({"src": _src, "field": "result", "want": _want, "why": _why})

# break and continue act only on an enclosing loop of the same function: out of a function that has none they are an error of
# that function and never the loop control of whatever loop the call sits in - for every loop form on the caller's side
for _body, _call, _how in (("func f() { %s }", "f()", "a function without parameters"), ("func f(a, b, c, d, e) { %s }", "f(1, 2, 3, 4, 5)", "a function of five parameters"),
                           ("func f(xs...) { %s }", "f(1)", "a variadic function"), ("func f() { if true { %s } }", "f()", "inside a block of the function"),
                           ("func f() { switch 1 {\ncase 1: %s\n} }", "f()", "inside a switch of the function"), ("f = func() { %s }", "f()", "an anonymous function")):
    for _sig in ("break", "continue"):
        for _loop, _lname in (("for i in [1, 2, 3] {", "for-in"), ("for i = 1; i < 4; i++ {", "C-style for"), ("i = 0\nfor i < 3 { i++;", "conditional for"),
                              ("i = 0\nfor { i++; if i > 3 { break };", "for ever"), ("for i in {\"k\": 1} {", "for-in over a map")):
            EXPECT.append({"src": (_body % _sig) + "\nr = \"none\"\ntry { %s r = \"in\"; %s; r = \"after the call\" }; r = \"after the loop\" } catch e { r = \"caught\" }\nr" % (_loop, _call),
                           "field": "result", "want": "s:636175676874", "why": "a stray %s in %s called from a %s loop is an error, not that loop's control" % (_sig, _how, _lname)})
EXPECT.append({"src": "func g() { for { func() { break }(); return 1 }; return 2 }\n(g()) ?? \"E\"", "field": "result", "want": "s:45",
               "why": "a break in an anonymous function called inside a loop does not leave that loop"})
EXPECT.append({"src": "func skip(x) { if x % 2 == 0 { continue } }\nsum = 0\ntry { for x in [1, 2, 3, 4] { skip(x); sum += x } } catch e { sum = \"E\" }\nsum", "field": "result", "want": "s:45",
               "why": "a continue in a helper function does not continue the caller's loop"})

# return ends the function from inside any block - a module block is a block like the others
for _src, _want, _why in (
        ("func f() { for i in [1, 2, 3] { module m { if i == 2 { return i * 10 } } }; return 3 }\nf()", "i:20", "return inside a module block inside a loop"),
        ("func f() { module m { return 1 }; return 2 }\nf()", "i:1", "return at the top of a module block"),
        ("func f() { module m { x = 1; if x == 1 { return \"in\" } }; return \"after\" }\nf()", "s:696e", "return inside an if inside a module block"),
        ("func f() { module m { return 1, 2 }; return 3 }\nf()", "[i:1,i:2]", "a return of several values out of a module block"),
        ("func f() { module m { return }; return 3 }\nf()", "nil", "a bare return out of a module block"),
        ("r = 0\nfunc f() { module m { module n { return 5 } }; r = 1; return 6 }\n[f(), r]", "[i:5,i:0]", "return out of two nested module blocks: nothing after them runs"),
        ("r = []\nfor i in [1, 2, 3] { module m { if i == 2 { break } }; r += i }\nr", "[i:1]", "break inside a module block inside a loop leaves the loop"),
        ("r = []\nfor i in [1, 2, 3] { module m { if i == 2 { continue } }; r += i }\nr", "[i:1,i:3]", "continue inside a module block inside a loop")):
    EXPECT.append({"src": _src, "field": "result", "want": _want, "why": _why})


def product():
    out = []
    for head, var, vals in LOOPS:
        name = head.split("{")[0][:24].strip()
        if vals is not None:
            first = vals[0]
            pre, loop = ("", head) if ";" not in head or head.startswith("for x =") else (head.split(";")[0] + "; ", head.split(";", 1)[1].strip())
            out.append({"src": "func f() { %s%s { return %s * 10 }; return -1 }\nf()" % (pre, loop, var), "field": "result", "want": "i:%d" % (first * 10),
                        "why": "return yields its value from inside `%s`" % name})
            out.append({"src": "func f() { %s%s { if true { for y in [7] { return [%s, y] } } }; return -1 }\nf()" % (pre, loop, var), "field": "result",
                        "want": "[i:%d,i:7]" % first, "why": "return yields its value from nested blocks and loops inside `%s`" % name})
            out.append({"src": "r = []; %s%s { if %s == %d { break }; r += %s }; r" % (pre, loop, var, vals[-1], var), "field": "result",
                        "want": "[" + ",".join("i:%d" % v for v in vals[:-1]) + "]", "why": "break leaves `%s`" % name})
            out.append({"src": "r = []; %s%s { if %s == %d { continue }; r += %s }; r" % (pre, loop, var, vals[0], var), "field": "result",
                        "want": "[" + ",".join("i:%d" % v for v in vals[1:]) + "]", "why": "continue skips the rest of the body of `%s`" % name})
    # a bare return yields nil whatever value the statements before it left behind, at every depth
    for head, var, vals in LOOPS:
        name = head.split("{")[0][:24].strip()
        pre, loop = ("", head) if ";" not in head or head.startswith("for x =") else (head.split(";")[0] + "; ", head.split(";", 1)[1].strip())
        for body, what in (("return", "as the first statement of the body"), ("y = 7; return", "after a value-producing statement"),
                           ("switch 3 {\ncase 3: return\n}", "as the first statement of a switch case"),
                           ("if [1] { y = [1]; for z in [1, 2] { z; return } }", "in nested blocks")):
            out.append({"src": "func f() { %s%s { %s }; return -1 }\n[f()]" % (pre, loop, body), "field": "result", "want": "[nil]",
                        "why": "a bare return yields nil, %s of `%s`" % (what, name)})
    for src in ("a = 7; return", "func f() { x = 5; return }\nf()", "func f() { 9; if true { 8; return } }\nf()", "func f() { x = [1, 2]; x; return }\n[f(), 1]",
                "func f() { switch 3 {\ncase 3: return\n} }\nf()", "f = func() { \"s\"; return }; r = f(); r", "func f(a) { a; return }\nf(4)",
                "func f() { try { 5; throw 1 } catch e { e; return } }\nf()", "func f() { defer func() { 3 }(); 4; return }\nf()"):
        out.append({"src": src, "field": "result", "want": "[nil,i:1]" if src.endswith("1]") else "nil",
                    "why": "a bare return yields nil whatever the statement before it evaluated to"})
    # switch runs exactly the first equal case - also when that case has an empty body - else the default, wherever it stands
    out.append({"src": "r = []; for i in [1, 2, 3] { switch i {\ncase 1:\ndefault: r += i\n} }; r", "field": "result", "want": "[i:2,i:3]",
                "why": "a matched case with an empty body runs nothing, not the default"})
    out.append({"src": "func sign(x) { switch x {\ncase 0:\ndefault: return \"nonzero\"\n}; return \"zero\" }\n[sign(0), sign(5)]", "field": "result",
                "want": "[s:7a65726f,s:6e6f6e7a65726f]", "why": "a matched case with an empty body does not reach a return in the default"})
    out.append({"src": "r = []; for i in [1, 2, 3] { switch i {\ncase 1:\ncase 2: r += 20\ndefault: continue\n}; r += i }; r", "field": "result",
                "want": "[i:1,i:20,i:2]", "why": "a matched case with an empty body does not run a continue in the default"})
    out.append({"src": "r = []; for i in [1, 2, 3] { switch i {\ndefault: r += 0\ncase 2: r += 2\n} }; r", "field": "result", "want": "[i:0,i:2,i:0]",
                "why": "a default placed before the cases runs only when no case is equal"})
    out.append({"src": "r = []; for i in [1, 2, 3] { switch i {\ncase 1: r += 1\ndefault: r += 0\ncase 3: r += 3\n} }; r", "field": "result", "want": "[i:1,i:0,i:3]",
                "why": "a default placed between the cases runs only when no case is equal"})
    out.append({"src": "r = []; for i in [1, 2] { switch i {\ncase 5: r += 5\n}; r += i }; r", "field": "result", "want": "[i:1,i:2]",
                "why": "a switch without an equal case and without default runs nothing"})
    # a for-in over a map visits the entries that are (still) there: an entry deleted before its turn is not visited, in both forms
    for head in ("for k in m", "for k, v in m"):
        out.append({"src": "m = {\"a\": 1, \"b\": 2, \"c\": 3}; n = 0; %s { n++; for j in [\"a\", \"b\", \"c\"] { if j != k { delete(m, j) } } }; n" % head,
                    "field": "result", "want": "i:1", "why": "`%s`: entries deleted by the first iteration are not visited" % head})
        out.append({"src": "func f() { m = {\"a\": 1, \"b\": 2}; first = true; %s { if !first { return 1 }; first = false; delete(m, \"a\"); delete(m, \"b\") }; return 0 }\nf()" % head,
                    "field": "result", "want": "i:0", "why": "`%s`: a return behind a deleted entry is not reached" % head})
        out.append({"src": "m = {\"a\": 1, \"b\": 2}; r = []; %s { r += k; m[\"z\" + k] = 0 }; len(r)" % head,
                    "field": "result", "want": "i:2", "why": "`%s`: every entry present at the start and not deleted is visited once" % head})
    out.append({"src": "func f() { for k in {\"a\": 5} { return k + \"!\" }; return \"none\" }\nf()", "field": "result", "want": "s:6121",
                "why": "return yields its value from a key-only for-in over a map"})
    out.append({"src": "func f() { x = 0; for x < 3 { x = x + 1; if x == 2 { return x * 10 } }; return -1 }\nf()", "field": "result", "want": "i:20",
                "why": "return yields its value from a conditional loop"})
    out.append({"src": "func f() { x = 0; for { x = x + 1; if x == 2 { return [x] } }; return -1 }\nf()", "field": "result", "want": "[i:2]",
                "why": "return yields its value from an endless loop"})
    out.append({"src": "func f() { for k, v in {\"a\": 5} { switch v {\ncase 5: return [k, v]\n} }; return -1 }\nf()", "field": "result", "want": "[s:61,i:5]",
                "why": "return from a switch inside a two-variable for-in over a map"})
    out.append({"src": "func f() { for k, v in {\"a\": 5} { try { throw \"x\" } catch e { return v + 1 } }; return -1 }\nf()", "field": "result", "want": "i:6",
                "why": "return from a catch block inside a two-variable for-in over a map"})
    return out


def run(tier, seed, replay=None):
    return interpcheck.run_interp_check(
        "C08", "c08", ("result", "trace"), {"quick": 6000, "thorough": 150000}, tier, seed,
        rule="terminating programs nesting if/else-if/else, the three loop forms, for-in over slices and one-entry maps, switch, "
             "functions, with break/continue/return at random positions and conditions drawn from every truthiness class "
             "(nil, booleans, zero/non-zero ints and floats, empty/non-empty/numeric strings, slices, maps); compared: result "
             "and probe trace; non-trivial = distinct source with a non-empty trace",
        design_ref="DESIGN.md §4 C08", expectations=EXPECT + product())
