"""C08: branches, loops, break/continue/return do what their syntax says."""
import interpcheck

def run(tier, seed, replay=None):
    return interpcheck.run_interp_check(
        "C08", "c08", ("result", "trace"), {"quick": 6000, "thorough": 150000}, tier, seed,
        rule="terminating programs nesting if/else-if/else, the three loop forms, for-in over slices and one-entry maps, switch, "
             "functions, with break/continue/return at random positions and conditions drawn from every truthiness class "
             "(nil, booleans, zero/non-zero ints and floats, empty/non-empty/numeric strings, slices, maps); compared: result "
             "and probe trace; non-trivial = distinct source with a non-empty trace",
        design_ref="DESIGN.md §4 C08")
