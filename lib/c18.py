"""C18: the command-line tool reports exactly what the library computes."""
import json, os, random, shutil, subprocess
from concurrent.futures import ThreadPoolExecutor
import common
from common import Result, CheckError

PID = "C18"
COUNTS = {"quick": 500, "thorough": 20000}

OK_STMTS = [
    'println("hello")', 'print("a", 1, "b")', 'printf("%d-%s\\n", 3, "z")', 'println(1 + 2 * 3)', 'println(len(args))',
    'println(args)', 'for a in args { println("arg:", a) }', 'if len(args) > 0 { println(args[0]) }',
    'x = 41; x++; println(x)', 'for i in range(3) { print(i) }', 'func f(a) { return a * 2 }; println(f(4))',
    'strings = import("strings"); println(strings.ToUpper("ab"))', 'sort = import("sort"); s = [3, 1, 2]; sort.Ints(toIntSlice(s)); println(s)',
    'strconv = import("strconv"); println(strconv.Itoa(7))', 'println(toString(1.5), toInt("12"), kindOf([]))',
    'm = {"k": 1}; println(keys(m))', 'println("é\\t|")', 'try { throw "x" } catch e { println("caught", e) }',
    'fmt = import("fmt"); fmt.Println("via fmt")', 'os = import("os"); fmt2 = import("fmt"); fmt2.Fprintln(os.Stderr, "to stderr")',
    'y = func() { return [1, 2] }(); println(y[1])', '# a comment', '', 'var q = 5', 'println(defined("args"), defined("nosuch"))',
    # the command runs the bytes it is given: carriage returns inside raw strings, tabs, form feeds
    # the script runs where the command was started: its working directory is the caller's
    'osw = import("os"); d, e = osw.Getwd(); println(d)', 'osw = import("os"); d, e = osw.Getwd(); iow = import("io/ioutil"); fs, e2 = iowReadDir(d); println(len(d) > 0)'.replace("iowReadDir", "iow.ReadDir"),
    'println(len(`a\r\nb`))', 'print(`x\r\ny`)', 's = `l1\r\nl2\r\n`; if len(s) != 8 { throw "rewritten" }; println("raw ok")', 'println(len("t\tq"), len(`\f`))',
]
RUN_FAIL = ['undefined_name', 'throw "boom"', 'nil.x', '[1][5]', 'import("nosuch")', 'toInt()', 'x = 1; x()', 'nosuch.b = 1',
            'throw "two\\nlines"', 'break', 'continue', 'if true { break }', 'load("nosuch.ank")', 'c = make(chan int64); close(c); close(c)', 'return 1; nosuch()', 'func() { return missing }()', 'range(1, 2, 0)', 'len(1)']
# scripts that run without error and end in a value of every kind (the value is not the verdict: vm.Execute's error is)
LAST_VALUES = ['errors = import("errors"); errors.New("an error value")', 'e2 = nil; try { throw "a" } catch q { e2 = q }; e2', 'false', '0', 'nil', '"error"', 'func() { }',
               '[1, 2]', 'os = import("os"); os.Remove("/nonexistent/zz")', 'return import("errors").New("returned")', 'module m { a = 1 }; m', '-1', '{"err": "x"}',
               'func f() { return import("errors").New("from f") }; f()', 'fmt = import("fmt"); fmt.Errorf("made %d", 1)', 'true', '1.5', 'return', 'return nil, "x"']
PARSE_FAIL = ['x = (', '1 +* ', '"unterminated', 'if {', 'func(', '}', '@', 'a = 1 b = 2', "x = 'ab'", '/* open comment']
ARGS = ["a", "b c", "1", "", "é", "x.ank", "-", "k=v"]
FLAGGY = ["-x", "--", "-v", "-e", "-e=1", "-h", "--zzz", "-v=false", "-v=maybe"]


def gen_case(rnd, i):
    kind = rnd.choices(["ok", "run", "parse", "unreadable", "flags", "empty", "value"], [34, 23, 14, 6, 10, 4, 9])[0]
    stmts = [rnd.choice(OK_STMTS) for _ in range(rnd.randint(0, 5))]
    if kind == "value":
        stmts.append(rnd.choice(LAST_VALUES))
    if kind == "run":
        stmts.insert(rnd.randint(0, len(stmts)), rnd.choice(RUN_FAIL))
    if kind == "parse":
        stmts.insert(rnd.randint(0, len(stmts)), rnd.choice(PARSE_FAIL))
    src = rnd.choice(["\n", "; ", "\n\n", "\r\n", "\n\t"]).join(stmts) if kind != "empty" else rnd.choice(["", " ", "\n", "# only a comment"])
    args = [rnd.choice(ARGS) for _ in range(rnd.choice([0, 0, 1, 2, 3]))]
    mode = rnd.choice(["file", "e"])
    c = {"id": i, "kind": kind, "src": src, "args": args, "mode": mode, "pre": [], "mid": []}
    if kind == "unreadable":
        c["mode"] = "file"
        c["unreadable"] = rnd.choice(["missing", "dir"])
    if kind == "flags":
        # flag-looking words before the script / between the script and its arguments
        if rnd.random() < 0.5:
            c["mid"] = [rnd.choice(FLAGGY)]
        else:
            c["pre"] = [rnd.choice(["-v=false", "--", "-v=0", "--e=println(1)", "-e=println(2)"])]
        if not stmts and mode == "e":
            c["src"] = "println(0)"
    return c


def goflag(argv):
    """Go's flag.Parse for -v (bool) and -e (string): used only to know which source the
    flag-stress cases end up running, so that the library can be run on the same one."""
    ex, eset, ver, i = "", False, False, 0
    while i < len(argv):
        a = argv[i]
        if len(a) < 2 or a[0] != "-":
            break
        nm = 1
        if a[1] == "-":
            nm = 2
            if len(a) == 2:
                i += 1
                break
        name = a[nm:]
        if not name or name[0] in "-=":
            return "usage"
        val = None
        if "=" in name[1:]:
            k = name.index("=", 1)
            name, val = name[:k], name[k + 1:]
        i += 1
        if name == "v":
            if val is None:
                ver = True
            elif val in ("1", "t", "T", "true", "TRUE", "True"):
                ver = True
            elif val in ("0", "f", "F", "false", "FALSE", "False"):
                ver = False
            else:
                return "usage"
        elif name == "e":
            if val is None:
                if i >= len(argv):
                    return "usage"
                val = argv[i]
                i += 1
            ex, eset = val, True
        else:
            return "usage"
    if ver:
        return "version"
    return (ex, eset, argv[i:])


def sx(s):
    out = ['"']
    for b in s.encode("utf-8", "surrogateescape"):
        if b in (34, 92):
            out.append("\\" + chr(b))
        elif b < 32 or b > 126:
            out.append("\\x%02x" % b)
        else:
            out.append(chr(b))
    out.append('"')
    return "".join(out)


def run(tier, seed, replay=None):
    res = Result(PID, tier, seed)
    harness = common.build_harness()
    bad = common.forbidden_scan()
    driver, ok_make, log = common.build_model()
    scratch = common.scratch_dir("c18")
    try:
        anko = os.path.join(scratch, "anko")
        p = common.sh(["go", "build", "-o", anko, "."], cwd=common.REPO, env=common.GOENV, check=False)
        if p.returncode != 0:
            raise CheckError("the anko command does not build: " + p.stdout[-2000:])
        ob = common.property_obligations(PID)
        n = COUNTS.get(tier, COUNTS["quick"])
        rnd = random.Random(seed * 1000003 + 18)
        cases = [gen_case(rnd, i) for i in range(n)]
        # directed
        directed = [
            {"kind": "ok", "src": 'println("x")', "args": [], "mode": "e"},
            {"kind": "ok", "src": 'println(args)', "args": ["p", "q"], "mode": "file"},
            {"kind": "run", "src": 'println(1)\nnosuch()', "args": [], "mode": "file"},
            {"kind": "parse", "src": 'println(1)\nx = (', "args": [], "mode": "e"},
            {"kind": "unreadable", "src": "", "args": [], "mode": "file", "unreadable": "missing"},
            {"kind": "unreadable", "src": "", "args": [], "mode": "file", "unreadable": "emptyname"},
            {"kind": "unreadable", "src": "", "args": ["a", "b"], "mode": "file", "unreadable": "emptyname"},
            {"kind": "unreadable", "src": "", "args": [], "mode": "file", "unreadable": "dir"},
            {"kind": "unreadable", "src": "", "args": ["x"], "mode": "file", "unreadable": "missing"},
            {"kind": "empty", "src": "", "args": [], "mode": "e"},
            {"kind": "empty", "src": "", "args": [], "mode": "file"},
            {"kind": "empty", "src": "", "args": ["a.ank"], "mode": "e"},
            # deep but finite recursion: what the library runs to the end the command runs to the end
            {"kind": "ok", "src": 'func f(n) { if n == 0 { return 0 }; return 1 + f(n - 1) }\nprintln("start")\nprintln(f(40000))', "args": ["t"], "mode": "file"},
            {"kind": "ok", "src": 'func f(n) { if n == 0 { return 0 }; return 1 + f(n - 1) }; println("start"); println(f(40000))', "args": [], "mode": "e"},
            {"kind": "ok", "src": 'func f(a, b, c, d, e) { if a == 0 { return 0 }; return 1 + f(a - 1, b, c, d, e) }; println(f(15000, 1, 2, 3, 4))', "args": [], "mode": "e"},
            {"kind": "ok", "src": 'x = 0\nfor i = 0; i < 300000; i++ { x += i }\nprintln(x)', "args": [], "mode": "file"},
            {"kind": "ok", "src": 'a = []\nfor i = 0; i < 200000; i++ { a += i }\nprintln(len(a))', "args": [], "mode": "file"},
            {"kind": "flags", "src": 'println(args)', "args": ["-x"], "mode": "file"},
            {"kind": "flags", "src": 'println(args)', "args": ["a"], "mode": "e", "mid": ["--"]},
        ]
        for j, d in enumerate(directed):
            d.update({"id": n + j, "pre": d.get("pre", []), "mid": d.get("mid", [])})
        cases = directed + cases
        wd = os.path.join(scratch, "w")
        os.makedirs(wd)
        os.makedirs(os.path.join(wd, "adir.ank"))

        def one(c):
            i = c["id"]
            libsrc = os.path.join(wd, "lib%d.ank" % i)
            files = []
            argv = list(c["pre"])
            lib_args = list(c["args"])
            if c["mode"] == "file":
                if c.get("unreadable") == "missing":
                    fname = os.path.join(wd, "missing%d.ank" % i)
                    libsrc = fname
                elif c.get("unreadable") == "emptyname":     # what a shell passes for "$UNSET": a file argument that is the empty string
                    fname = ""
                    libsrc = fname
                elif c.get("unreadable") == "dir":
                    fname = os.path.join(wd, "adir.ank")
                    libsrc = fname
                else:
                    fname = os.path.join(wd, "s%d.ank" % i)
                    with open(fname, "w") as f:
                        f.write(c["src"])
                    with open(libsrc, "w") as f:
                        f.write(c["src"])
                argv += [fname] + c["mid"] + c["args"]
                if c["mid"]:
                    lib_args = c["mid"] + c["args"]      # after the file name nothing is a flag any more
            else:
                with open(libsrc, "w") as f:
                    f.write(c["src"])
                argv += ["-e", c["src"]] + c["mid"] + c["args"]
            if c["kind"] == "flags":
                g = goflag(argv)
                if isinstance(g, tuple):
                    ex, eset, pos = g
                    if ex != "" or eset:
                        c["src"], lib_args = ex, pos
                        with open(libsrc, "w") as f:
                            f.write(ex)
                    elif pos:
                        lib_args = pos[1:]
            st = os.path.join(wd, "st%d.json" % i)
            pl = subprocess.run([harness, "c18lib", "-srcfile", libsrc, "-out", st, "--"] + lib_args, capture_output=True, timeout=60,
                                stdin=subprocess.DEVNULL)
            status = json.load(open(st)) if os.path.exists(st) else {"ok": False, "msg": "harness failed: " + pl.stderr.decode(errors="replace")[-300:], "class": "harness"}
            pb = subprocess.run([anko] + argv, capture_output=True, timeout=60, stdin=subprocess.DEVNULL)
            c.update({"argv": argv, "lib_args": lib_args, "lib_stdout": pl.stdout.decode("utf-8", "surrogateescape"), "status": status,
                      "exit": pb.returncode, "stdout": pb.stdout.decode("utf-8", "surrogateescape"),
                      "stderr": pb.stderr.decode("utf-8", "replace")[-300:]})
            if c["mode"] == "file":
                if status["class"] == "unreadable":
                    files.append((fname, False, status["msg"]))
                else:
                    files.append((fname, True, c["src"]))
            c["files"] = files
            return c

        with ThreadPoolExecutor(16) as ex:
            cases = list(ex.map(one, cases))
        with open(os.path.join(scratch, "cases.sx"), "w") as f:
            for c in cases:
                files = "(" + " ".join("(%s %s %s)" % (sx(n_), "true" if r else "false", sx(t)) for n_, r, t in c["files"]) + ")"
                lib = "(%s (%s) %s %s %s)" % (sx(c["src"]), " ".join(sx(a) for a in c["lib_args"]), sx(c["lib_stdout"]),
                                              "true" if c["status"]["ok"] else "false", sx(c["status"]["msg"]))
                f.write("c18 ((%s) %s %s)\n" % (" ".join(sx(a) for a in c["argv"]), files, lib))
        lines = common.run_driver(driver, os.path.join(scratch, "cases.sx"))
        mism, plans, skipped = 0, {}, 0
        for c, line in zip(cases, lines):
            toks = [t for t in line.strip("()").split() if t != '""']
            got = "exit %d %s" % (c["exit"], c["stdout"].encode("utf-8", "surrogateescape").hex())
            plans[toks[0]] = plans.get(toks[0], 0) + 1
            model = " ".join(toks) if toks[0] == "exit" else toks[0]
            if len(toks) == 2 and toks[0] == "exit":
                model += " "
            # the property's own oracle, on the implementation alone (when the script is well inside the property's scope)
            want = None
            if c["kind"] != "flags":
                if c["status"]["class"] == "unreadable":
                    want = "exit 2 " + ("ReadFile error: " + c["status"]["msg"] + "\n").encode().hex()
                elif c["status"]["ok"]:
                    want = "exit 0 " + c["lib_stdout"].encode("utf-8", "surrogateescape").hex()
                else:
                    want = "exit 4 " + (c["lib_stdout"] + "Execute error: " + c["status"]["msg"] + "\n").encode("utf-8", "surrogateescape").hex()
            if toks[0] == "exit" and c["argv"] and c["kind"] == "flags" and goflag(c["argv"]) == "version":
                okm = model.strip() == got.strip()
            elif toks[0] == "usage":
                okm = c["exit"] in (0, 2) and c["stdout"] == ""      # -h/-help exit 0, anything else 2; usage text goes to stderr
            elif toks[0] == "interactive":
                okm = want is None
                if want is None:
                    skipped += 1
            else:
                okm = model.strip() == got.strip()
            oki = want is None or want.strip() == got.strip()
            if okm and oki:
                continue
            mism += 1
            rec = {"property": PID, "kind": "the built command disagrees with the library verdict / printed output" if not oki else
                   "the built command disagrees with the model of anko.go", "argv": c["argv"][len(c["pre"]):] if False else c["argv"],
                   "script": c["src"], "script_args": c["lib_args"], "exit_status": c["exit"], "stdout": c["stdout"][:400], "stderr": c["stderr"],
                   "library": {"verdict": c["status"], "printed": c["lib_stdout"][:400]}, "model": model[:300], "expected_by_property": want and want[:300]}
            sig = None
            if c["mode"] == "e" and c["src"] == "" and not c["pre"]:
                sig = "empty-execute"
            known = {k["id"]: k for k in common.known_findings(PID)[0]}
            if sig and sig in known:
                res.known(sig, known[sig]["text"])
                continue
            if len(res.violations) < 10:
                res.violation(rec, "" if not oki else "no-failing-input-found")
        if bad:
            res.violation({"property": PID, "kind": "forbidden construct in the Coq development", "lines": bad}, "no-failing-input-found")
        if ob["failed"] and not res.violations:
            res.violation({"property": PID, "kind": "proof obligation no longer checks", "failed": ob["failed"]}, "no-failing-input-found")
        kinds = {}
        for c in cases:
            k = "%s/%s/%s" % (c["kind"], c["mode"], c["status"]["class"])
            kinds[k] = kinds.get(k, 0) + 1
        res.coverage = {
            "obligations": ob["obligations"], "discharged": ob["discharged"], "theorems": ob["theorems"], "axioms": ob["axioms"],
            "closed_under_global_context": ob["closed_count"], "obligation_failures": ob["failed"],
            "checker_cmd": "make -C coq; coqc Properties/C18.v; go build -o anko /repo; per case: ./anko argv (exit status, stdout) and "
                           "harness c18lib (vm.Execute in an environment prepared like anko.go, separate process) -> extracted model entry c18",
            "trusted_base": common.TRUSTED_COMMON + [
                "harness/c18.go prepares the library environment as anko.go does (args, core.Import, packages linked in)",
                "OS process interface: exit status and captured stdout of the built binary"],
            "evaluations": len(cases), "distinct_nontrivial": len(set((tuple(c["argv"][-1 - len(c["args"]):]), c["src"]) for c in cases if c["src"].strip())),
            "rule": "scripts = 0-5 printing statements from a pool of 25 (core builtins, packages, args) with optionally one of 12 run-time "
                    "failures or 10 parse failures inserted at a random place; x file / -e; x 0-3 script arguments; unreadable files "
                    "(missing, directory); flag-looking words before and after the script; empty scripts; non-trivial = distinct non-empty script",
            "case_kinds": kinds, "model_plans": plans, "mismatches": mism, "interactive_skipped": skipped,
            "samples": [{"argv": c["argv"], "exit": c["exit"], "stdout": c["stdout"][:80]} for c in cases[10:13]], "make_ok": ok_make,
        }
        res.assumptions = ["scripts are deterministic and do not call os.Exit or read stdin", "stderr is not compared",
                           "usage errors of the flag package (unknown flag, -h) and the interactive mode are outside the property; "
                           "the model says which command lines those are"]
        return res.finish()
    finally:
        shutil.rmtree(scratch, ignore_errors=True)
