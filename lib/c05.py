"""C05: arithmetic follows the int64/float64/string tower exactly."""
import interpcheck

EXPECT = [
    {"src": "9223372036854775807 + 1", "field": "result", "want": "i:-9223372036854775808", "why": "int64 addition wraps"},
    {"src": "(-9223372036854775807 - 1) - 1", "field": "result", "want": "i:9223372036854775807", "why": "int64 subtraction wraps"},
    {"src": "4611686018427387904 * 4", "field": "result", "want": "i:0", "why": "int64 multiplication wraps"},
    {"src": "(-9223372036854775807 - 1) % -1", "field": "result", "want": "i:0", "why": "MinInt64 % -1 is 0"},
    {"src": "-7 % 3", "field": "result", "want": "i:-1", "why": "% truncates toward zero"},
    {"src": "r = (1 % 0) ?? \"E\"; r", "field": "result", "want": "s:45", "why": "% by zero is an error"},
    {"src": "1 << 64", "field": "result", "want": "i:0", "why": "shift count taken as unsigned"},
    {"src": "-8 >> 65", "field": "result", "want": "i:-1", "why": "arithmetic shift right saturates"},
    {"src": "1 << -1", "field": "result", "want": "i:0", "why": "a negative shift count is a huge unsigned count"},
    {"src": "9007199254740993 < 9007199254740992.0", "field": "result", "want": "b:false", "why": "mixed comparison in float64"},
    {"src": "9007199254740993 > 9007199254740992", "field": "result", "want": "b:true", "why": "integer comparison is exact beyond 2^53"},
    {"src": "7 / 2", "field": "result", "want": "f:4615063718147915776", "why": "/ always yields the float64 quotient"},
    {"src": "1 + 0.5", "field": "result", "want": "f:4609434218613702656", "why": "float contagion"},
    {"src": "\"a\" + 1", "field": "result", "want": "s:6131", "why": "string + number concatenates"},
    {"src": "\"a\" + 1.5", "field": "result", "want": "s:61312e35", "why": "numbers in Go's default formatting"},
    {"src": "\"ab\" * 3", "field": "result", "want": "s:616261626162", "why": "string * n repeats"},
    {"src": "[4095 + 0, 4096 + 0, -1 + 0, -2 + 0, 4095 * 1, 4096 * 1]", "field": "result",
     "want": "[i:4095,i:4096,i:-1,i:-2,i:4095,i:4096]", "why": "small-value fast paths return the same values"},
    {"src": "^0", "field": "result", "want": "i:-1", "why": "unary ^"},
    {"src": "-(-9223372036854775807 - 1)", "field": "result", "want": "i:-9223372036854775808", "why": "unary - wraps"},
]

# a float is a float whatever its width, an integer repeat count is a count whatever its width: values of the narrower Go
# kinds (read from typed slices the script made itself) follow the same tower
_F32 = "a = make([]float32, 1); a[0] = 1.5; v = a[0]\n"
for _e, _w in (("v * 2", 4613937818241073152), ("2 * v", 4613937818241073152), ("v * 2.0", 4613937818241073152), ("v * v", 4612248968380809216), ("v + 2", 4615063718147915776), ("2 + v", 4615063718147915776), ("v - 1", 4602678819172646912), ("4 - v", 4612811918334230528), ("v / 2", 4604930618986332160), ("-v", 13832806255468478464), ("v * -3", 13840124604862955520)):
    EXPECT.append({"src": _F32 + _e, "field": "result", "want": "f:%d" % _w, "why": "`%s` with v a float32 of 1.5 is carried out in float64" % _e})
for _e, _w in (("v < 2", "true"), ("1 < v", "true"), ("v > 1", "true"), ("v <= 1", "false"), ("2 >= v", "true")):
    EXPECT.append({"src": _F32 + _e, "field": "result", "want": "b:" + _w, "why": "`%s` with v a float32 of 1.5 is compared in float64" % _e})
for _k in ("int", "int32", "int64", "rune", "uint", "uint32", "uint64", "byte"):
    EXPECT.append({"src": "b = make([]%s, 1); b[0] = 2; n = b[0]\n\"ab\" * n" % _k, "field": "result", "want": "s:61626162", "why": "string * n repeats the string n times for a count of kind %s" % _k})
    EXPECT.append({"src": "b = make([]%s, 1); b[0] = 2; n = b[0]\n[n * 3, 3 * n, n + 1, n - 5, n %% 2, n << 2, -n]" % _k, "field": "result", "want": "[i:6,i:6,i:3,i:-3,i:0,i:8,i:-2]",
                   "why": "integer arithmetic on a value of kind %s gives the int64 result" % _k})

for _k in ("int", "int32", "int64", "rune", "uint", "uint32", "uint64", "byte"):
    EXPECT.append({"src": "b = make([]%s, 1); b[0] = 2; n = b[0]\n[n + 1.5, 1.5 + n, n - 0.5, n * 1.5, 1.5 * n, n + \"s\", \"s\" + n]" % _k, "field": "result",
                   "want": "[f:4615063718147915776,f:4615063718147915776,f:4609434218613702656,f:4613937818241073152,f:4613937818241073152,s:3273,s:7332]",
                   "why": "a value of kind %s with a float operand is carried out in float64, with a string operand it concatenates, on either side" % _k})

# every operator form on every integer kind a script can make gives what the same form gives on an int64 of the same value
_FORMS = [("n + 3", "i:5"), ("3 + n", "i:5"), ("n - 3", "i:-1"), ("3 - n", "i:1"), ("n * 3", "i:6"), ("3 * n", "i:6"), ("n / 4", "f:4602678819172646912"),
          ("4 / n", "f:4611686018427387904"), ("n % 3", "i:2"), ("7 % n", "i:1"), ("n << 1", "i:4"), ("1 << n", "i:4"), ("n >> 1", "i:1"), ("n & 3", "i:2"),
          ("n | 4", "i:6"), ("-n", "i:-2"), ("^n", "i:-3"), ("n == 2", "b:true"), ("2 == n", "b:true"), ("n != 2", "b:false"), ("n < 3", "b:true"),
          ("3 < n", "b:false"), ("n <= 2", "b:true"), ("n >= 2", "b:true"), ("n > 1", "b:true"), ("n == 2.0", "b:true"), ("n < 2.5", "b:true"),
          ("2.5 > n", "b:true"), ("func() { x = n; x++; return x }()", "i:3"), ("func() { x = n; x += 1; return x }()", "i:3"),
          ("func() { x = n; x -= 5; return x }()", "i:-3"), ("func() { x = n; x *= 1.5; return x }()", "f:4613937818241073152"),
          ("[7, 8, 9][n]", "i:9"), ("n in [2]", "b:true"), ("2 in [n]", "b:true"), ("n ? 1 : 0", "i:1"), ("\"ab\" * n", "s:61626162")]
for _k in ("int", "int32", "int64", "rune", "uint", "uint32", "uint64", "byte"):
    EXPECT.append({"src": "b = make([]%s, 1); b[0] = 2; n = b[0]\n[%s]" % (_k, ", ".join(f for f, _ in _FORMS)), "field": "result",
                   "want": "[" + ",".join(w for _, w in _FORMS) + "]",
                   "why": "every operator form on a value of kind %s gives what it gives on an int64 of the same value" % _k})


def run(tier, seed, replay=None):
    return interpcheck.run_interp_check(
        "C05", "c05", ("result",), {"quick": 5000, "thorough": 200000}, tier, seed,
        rule="the cached small-integer band -3..4098 (every value, through +0, *1, 0-(0-v), |0, unary -, and a len-based path), "
             "then the complete product of operand pairs over 24 boundary int64 (0, +-1, cache edges, +-2^31, 2^32, +-(2^53+-1), "
             "2^62, +-2^63 edges, shift counts 63/64/65), 18 float64 (+-0, +-Inf, NaN, subnormal, beyond 2^53, 2^63), 8 strings, "
             "true/false/nil = 53x53 pairs, each under all 15 binary operators and the 3 unary ones (errors mapped to a marker "
             "with ??), operands held in variables; then the same pairs with the operands arriving as list elements, nested elements, function "
             "results, map entries or bare literals (quick: one shape for a third of the pairs; thorough: every pair under every shape), then "
             "random operator trees of depth <= 4 over the same leaves (a quarter of the leaves read back from a list or map literal); values compared with dynamic type and "
             "float bits (NaN one class); string repetition by huge counts is excluded (astronomical allocation); directed programs on the "
             "narrower number kinds a script can make (float32; int, int32, rune, uint, uint32, uint64, byte read from typed slices): "
             "37 operator forms per integer kind against the int64 result, float / string operands on either side, float32 under + - * / "
             "unary - and the ordering comparisons (implementation only: the model has no narrow kinds)",
        design_ref="DESIGN.md §4 C05", expectations=EXPECT, max_dropped=0.05)
