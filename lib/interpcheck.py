"""Shared driver of the interpreter-model correspondences (C04, C07, C08, C09, ...):
generate programs with harness `interp -gen <g>`, run the real interpreter (in the harness) and
the extracted Coq model on the tree the real parser produced, compare the projection that the
property constrains."""
import json, os, re, shutil
import common
from common import Result, CheckError


def atom(s):
    ok = s != '' and all((ch.isascii() and ch.isalnum()) or ch in '-_.:' for ch in s)
    if ok:
        return s
    out = '"'
    for ch in s.encode():
        if ch in (34, 92):
            out += '\\' + chr(ch)
        elif ch < 32 or ch > 126:
            out += '\\x%02x' % ch
        else:
            out += chr(ch)
    return out + '"'


TOK = re.compile(r'"(?:[^"\\]|\\.)*"|[^\s()]+')


def parse_model(line):
    """(status result trace bindings polls) -> dict ; other statuses -> {'status':..., 'msg':...}"""
    body = line.strip()
    if not (body.startswith("(") and body.endswith(")")):
        return {"status": "garbled", "msg": line[:200]}
    toks = TOK.findall(body[1:-1])
    def un(t):
        if t.startswith('"'):
            t = t[1:-1]
            t = re.sub(r'\\x([0-9a-f]{2})', lambda m: chr(int(m.group(1), 16)), t)
            t = re.sub(r'\\(.)', r'\1', t)
        return t
    toks = [un(t) for t in toks]
    if toks and toks[0] in ("ok", "err") and len(toks) == 5:
        return {"status": toks[0], "result": toks[1], "trace": toks[2], "bindings": toks[3], "polls": int(toks[4])}
    return {"status": toks[0] if toks else "garbled", "msg": " ".join(toks[1:])}


# harness/interp.go hostNames minus host_names of coq/Interp/InterpDriver.v
IMPL_ONLY_HOSTS = re.compile(r"\b(mkdur|mkvals|mkints|mkptr|hsend|hcall0|hcall1|hcallr|hcall2|mkarr|mkarrs|hsum|hjoin|hfix2t)\b")


def run_interp_check(pid, gen, fields, counts, tier, seed, rule, design_ref, extra_assumptions=(), known_sig=None,
                     max_dropped=0.10, impl_oracle=None, expectations=(), extra=None):
    """expectations: directed programs with what the PROPERTY says they must yield (not the model):
    dicts {src, field, want, why, finding (optional id of a known_findings.txt entry)}"""
    res = Result(pid, tier, seed)
    harness = common.build_harness()
    bad = common.forbidden_scan()
    driver, ok_make, log = common.build_model()
    ob = common.property_obligations(pid)
    scratch = common.scratch_dir(pid.lower())
    try:
        n = counts.get(tier, counts["quick"])
        common.sh([harness, "interp", "-gen", gen, "-seed", str(seed), "-n", str(n), "-out", scratch],
                  env=common.GOENV, timeout=3000)
        meta = json.load(open(os.path.join(scratch, "meta.json")))
        cases = [json.loads(l) for l in open(os.path.join(scratch, "cases.jsonl"))]
        results = common.run_driver(driver, os.path.join(scratch, "cases.sx"))
        known, _ = common.known_findings(pid)
        dropped, compared, mism, panics, impl_only = {}, 0, 0, 0, 0
        known_hits = {}
        for c, line in zip(cases, results):
            impl = c["impl"]
            m = parse_model(line)
            if impl["status"] == "panic":
                panics += 1
                if len(res.violations) < 8:
                    res.violation({"property": pid, "kind": "the interpreter panicked (escaped into the host)",
                                   "source": c["src"], "panic": impl.get("msg"), "model": m})
                continue
            if impl["status"] == "crash" and str(impl.get("msg", "")).startswith("not run"):
                dropped["not-run-after-crashes"] = dropped.get("not-run-after-crashes", 0) + 1
                continue
            if impl["status"] == "crash":
                # the supervised harness child died (fatal Go error such as a stack overflow) or stopped advancing on this program
                panics += 1
                if len(res.violations) < 8:
                    res.violation({"property": pid, "kind": "the implementation took the process down or never returned on this program (%s)" % impl.get("msg"),
                                   "source": c["src"], "cancel_at": c["cancel_at"], "model": m,
                                   "how_to_replay": "vm.RunContext with the counting context of harness/interp.go cancelled at poll number cancel_at"})
                continue
            if impl["status"] == "parse-error":
                # a program of the generator that the real parser rejects: counted on its own so that a template that never runs shows
                key = "rejected-by-the-parser:" + ",".join((c.get("tags") or ["?"])[:1])
                dropped[key] = dropped.get(key, 0) + 1
                continue
            if impl_oracle:
                for why in impl_oracle(c):
                    if isinstance(why, tuple):
                        # (message, id of a known_findings.txt entry): a recorded finding, reported as such while it is listed
                        why, fid = why
                        if fid in {k["id"] for k in known}:
                            known_hits[fid] = known_hits.get(fid, 0) + 1
                            if known_hits[fid] == 1:
                                res.known(fid, "%s :: %s" % (fid, why))
                            continue
                    mism += 1
                    if len(res.violations) < 8:
                        res.violation({"property": pid, "kind": "law violated by the implementation alone: " + why,
                                       "source": c["src"], "impl": impl})
            if "impl-only" in (c.get("tags") or []):
                impl_only += 1      # values the model does not have: judged by the law on the implementation alone
                continue
            if impl["status"] == "timeout":
                dropped["impl-timeout"] = dropped.get("impl-timeout", 0) + 1
                continue
            if m["status"] not in ("ok", "err"):
                if m["status"] in ("panic",):
                    # the model says the code faults here but the implementation did not
                    mism += 1
                    if len(res.violations) < 8:
                        res.violation({"property": pid, "kind": "model predicts a Go-level fault, implementation returned",
                                       "source": c["src"], "impl": impl, "model": m})
                    continue
                key = m["status"] + ":" + m.get("msg", "")[:40]
                dropped[key] = dropped.get(key, 0) + 1
                continue
            compared += 1
            diff = [f for f in fields if str(impl.get(f)) != str(m.get(f))]
            if impl["status"] != m["status"]:
                diff.append("status")
            if not diff:
                continue
            rec = {"property": pid, "kind": "model and implementation differ on " + ",".join(diff),
                   "source": c["src"], "cancel_at": c["cancel_at"], "impl": impl, "model": m}
            sig = known_sig(rec, known) if known_sig else None
            if sig:
                res.known(sig[0], sig[1])
                continue
            mism += 1
            if len(res.violations) < 8:
                res.violation(rec)
        # directed expectations stated by the property itself, checked on the implementation alone
        exp_checked = directed_compared = 0
        if expectations:
            # every expectation that does not set up its own context is also run through vm.Run - the entry point without a
            # context, under which nothing is ever cancelled (ctx.Done() is nil): the property holds there just the same
            expectations = list(expectations) + [dict(e, src="#plain\n" + e["src"], why=e["why"] + " [run with vm.Run, no context]")
                                                 for e in expectations if not e["src"].startswith("#") and e["field"] != "polls"]
            sf = os.path.join(scratch, "expect.json")
            json.dump([e["src"] for e in expectations], open(sf, "w"))
            common.sh([harness, "interp", "-srcfile", sf, "-out", scratch], env=common.GOENV, timeout=600)
            drecs = [json.loads(l) for l in open(os.path.join(scratch, "directed.jsonl"))]
            known_ids = {k.get("id"): k for k in known}
            # the directed programs also tie the model: where the model covers a program it must agree with the implementation
            dres = common.run_driver(driver, os.path.join(scratch, "directed.sx"))
            for e, rec, line in zip(expectations, drecs, dres):
                dm = parse_model(line)
                if e["src"].startswith("#plain") or dm["status"] not in ("ok", "err") or rec["impl"]["status"] not in ("ok", "err"):
                    continue
                if IMPL_ONLY_HOSTS.search(e["src"]):
                    continue    # Go functions of the harness that the model's host pool does not have
                directed_compared += 1
                ddiff = [f for f in fields if str(rec["impl"].get(f)) != str(dm.get(f))]
                if rec["impl"]["status"] != dm["status"]:
                    ddiff.append("status")
                if ddiff:
                    mism += 1
                    if len(res.violations) < 12:
                        res.violation({"property": pid, "kind": "model and implementation differ on " + ",".join(ddiff) + " (directed program)",
                                       "source": e["src"], "impl": rec["impl"], "model": dm})
            for e, rec in zip(expectations, drecs):
                exp_checked += 1
                got = rec["impl"].get(e["field"]) if e["field"] != "status" else rec["impl"]["status"]
                if rec["impl"]["status"] == "panic":
                    got = "panic"
                if str(got) == str(e["want"]) or str(got) in [str(w) for w in e.get("want_any", [])]:
                    continue
                if e.get("finding") and e["finding"] in known_ids:
                    res.known(e["finding"], "%s :: %s (got %s, the property requires %s)" % (e["finding"], e["why"], got, e["want"]))
                    continue
                mism += 1
                if len(res.violations) < 12:
                    res.violation({"property": pid, "kind": "the implementation contradicts the property on a directed program: " + e["why"],
                                   "source": e["src"], "field": e["field"], "required": e["want"], "impl": rec["impl"]})
        extra_cov = extra(res, scratch, harness) if extra else {}
        ndropped = sum(dropped.values())
        if cases and ndropped > max_dropped * len(cases) and not res.violations:
            raise CheckError("%d of %d programs are outside the modelled fragment (%s): the check would pass thinly"
                             % (ndropped, len(cases), dropped))
        if bad:
            res.violation({"property": pid, "kind": "forbidden construct in the Coq development", "lines": bad},
                          "no-failing-input-found")
        if ob["failed"]:
            res.violation({"property": pid, "kind": "proof obligation no longer checks", "failed": ob["failed"],
                           "note": "searched %d programs for a failing input" % len(cases)},
                          "" if res.violations else "no-failing-input-found")
        res.coverage = {
            "obligations": ob["obligations"], "discharged": ob["discharged"], "theorems": ob["theorems"],
            "axioms": ob["axioms"], "closed_under_global_context": ob["closed_count"],
            "checker_cmd": "make -C coq (full .vo) ; coqc Properties/%s.v ; correspondence: harness interp -gen %s | "
                           "extracted model (entry interp) on the tree dumped from the real parser" % (pid, gen),
            "trusted_base": common.TRUSTED_COMMON + [
                "reflection-based AST dumper (harness/astdump.go) and the decoder coq/Interp/InterpDriver.v",
                "host function pool (probe, probe2, hvar, hpair, hpanic, hnone, hfix3, hzero) defined twice: harness/interp.go and host_call in Model.v",
                "Go runtime behaviour modelled not verified: reflect, append growth (formula validated against the toolchain), "
                "strconv/fmt float routines (oracle tables filled from the real functions)"],
            "evaluations": len(cases), "compared": compared, "judged_on_the_implementation_alone": impl_only, "distinct_nontrivial": meta["distinct_nontrivial"],
            "known_finding_hits": known_hits, "dropped_outside_fragment": dropped, "generated_programs_rejected_by_the_parser": meta.get("parse_failures", 0), "mismatches": mism, "implementation_panics": panics,
            "compared_fields": list(fields), "rule": rule, "directed_expectations_checked": exp_checked, "directed_programs_compared_with_the_model": directed_compared, "constructs": meta["constructs"],
            "samples": [{"src": c["src"][:600], "impl": c["impl"]} for c in cases[len(cases) // 2: len(cases) // 2 + 2]],
            "make_ok": ok_make,
        }
        res.coverage.update(extra_cov or {})
        res.assumptions = ["programs of fragment F1 (nil, bool, int64, float64, string, []interface{}, map[interface{}]interface{}, "
                           "script and host functions, modules); others are dropped and counted",
                           "Options.Debug = false; fresh environment holding only the host pool"] + list(extra_assumptions)
        return res.finish()
    finally:
        shutil.rmtree(scratch, ignore_errors=True)
