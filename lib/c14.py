"""C14: runs are isolated and repeatable; executing a tree never changes it."""
import json, os, shutil
import common
from common import Result, CheckError

PID = "C14"
COUNTS = {"quick": 800, "thorough": 40000}


def run(tier, seed, replay=None):
    res = Result(PID, tier, seed)
    harness = common.build_harness(race=True)
    bad = common.forbidden_scan()
    driver, ok_make, log = common.build_model()
    scratch = common.scratch_dir("c14")
    try:
        n = COUNTS.get(tier, COUNTS["quick"])
        env = dict(common.GOENV, GORACE="halt_on_error=1 exitcode=66")
        p = common.sh([harness, "c14", "-seed", str(seed), "-n", str(n), "-out", scratch, "-repo", common.REPO],
                      env=env, timeout=6000, check=False)
        if p.returncode == 66 or "WARNING: DATA RACE" in p.stdout:
            res.violation({"property": PID, "kind": "data race reported while one parsed tree was executed from several goroutines "
                           "on separate environments", "race_report": p.stdout[-3000:]})
            res.coverage = {"obligations": 1, "discharged": 0, "checker_cmd": "harness c14 (-race)", "trusted_base": [],
                            "evaluations": 1, "distinct_nontrivial": 2}
            return res.finish()
        if p.returncode != 0:
            raise CheckError("harness c14 failed: " + p.stdout[-2000:])
        meta = json.load(open(os.path.join(scratch, "meta.json")))
        if meta.get("ast_writes_error"):
            raise CheckError("static analysis of vm failed: " + meta["ast_writes_error"])
        gen = os.path.join(scratch, "AnkoGen")
        shutil.copy(os.path.join(common.COQ, "Obligations", "C14.v"), os.path.join(scratch, "ObligationC14.v"))
        extra = ["-Q", gen, "AnkoGen"]
        ob = common.property_obligations(PID, extra_files=[(os.path.join(gen, "GenAstWrites.v"), gen, extra),
                                                           (os.path.join(scratch, "ObligationC14.v"), scratch, extra)])
        results = [json.loads(l) for l in open(os.path.join(scratch, "results.jsonl"))]
        nprob = 0
        for r in results:
            if r.get("problems"):
                nprob += 1
                if len(res.violations) < 8:
                    res.violation({"property": PID, "kind": r["problems"][0][:200], "source": r["src"], "all_problems": r["problems"][:6]})
        for pr in (meta["isolation_problems"] or []):
            res.violation({"property": PID, "kind": "isolation between environments / imports: " + pr,
                           "scenario": "harness/c14.go c14Isolation"})
        for pr in (meta.get("variant_problems") or [])[:8]:
            res.violation({"property": PID, "kind": "one tree run in differing environments: a run does not yield what it yields alone", "finding": pr,
                           "scenario": "harness/c14.go c14Variants: the program is parsed once; environments A / B / C bind T (type), K, L, fn, fn0, M, sf differently; "
                                       "the shared tree runs in them in three orders and concurrently; each result is compared with a fresh parse in a fresh copy of that environment"})
        for w in (meta["non_fresh_ast_writes"] or [])[:6]:
            res.violation({"property": PID, "kind": "package vm writes into a syntax-tree node it did not create", "write": w,
                           "note": "static finding (go/types); the dynamic runs of this check did not necessarily exercise it"},
                          "no-failing-input-found" if nprob == 0 else "")
        HOST_SWITCHES = ["parser: EnableDebug assigns yyDebug", "parser: EnableErrorVerbose assigns yyErrorVerbose"]
        for w in [w for w in (meta.get("package_state_writes") or []) if w not in HOST_SWITCHES][:6]:
            res.violation({"property": PID, "kind": "package-level state written while scripts are parsed or run (state shared between executions)", "write": w,
                           "note": "static finding (go/types over vm, parser, core, env, ast, ast/astutil; Obligations/C14.v runs_share_no_package_state); "
                                   "the dynamic runs of this check did not necessarily exercise it"},
                          "no-failing-input-found" if not res.violations else "")
        if bad:
            res.violation({"property": PID, "kind": "forbidden construct in the Coq development", "lines": bad}, "no-failing-input-found")
        if ob["failed"] and not res.violations:
            res.violation({"property": PID, "kind": "proof obligation no longer checks", "failed": ob["failed"]}, "no-failing-input-found")
        res.coverage = {
            "obligations": ob["obligations"], "discharged": ob["discharged"], "theorems": ob["theorems"], "axioms": ob["axioms"],
            "closed_under_global_context": ob["closed_count"],
            "checker_cmd": "make -C coq; coqc Properties/C14.v; per run: harness c14 (built with -race) regenerates AnkoGen/GenAstWrites.v, "
                           "coqc Obligations/C14.v (non_fresh_ast_writes = []; package_state_writes = the two parser debugging switches)",
            "trusted_base": common.TRUSTED_COMMON + [
                "go/types based write-set analysis of package vm (harness/c14.go vmAstWrites): syntactic freshness rule, usual aliasing caveats",
                "Go race detector; reflection-based full tree dump (every field, positions, literal values, CallExpr.Func validity)"],
            "evaluations": len(results), "distinct_nontrivial": meta["distinct_nontrivial"],
            "rule": "goroutine-free programs (22 directed incl. writes through pointers to computed small integers / booleans / strings, import, ++, closures, defer, variadic calls, cached small integers; "
                    "semantic and full-grammar generators): parsed once, dumped, run 4 times in sequence and from 6 goroutines at "
                    "once on fresh environments under the race detector; every run must equal the solo run (value, error class, "
                    "probe trace, bindings), the dump must never change, re-parsing must give the same dump; plus directed "
                    "isolation scenarios for bindings and import copies; plus %d programs with free names (a type, values, Go functions, a module, a script "
                    "function) parsed once and run in three environments binding those names differently, in three orders and concurrently, each "
                    "compared with a fresh parse in a fresh copy of that environment; non-trivial = distinct source that does more than fail at once" % meta.get("variant_programs", 0),
            "variant_runs": meta.get("variant_runs"), "variant_problems": len(meta.get("variant_problems") or []),
            "ast_writes_found": meta["ast_writes"], "parse_failures": meta["parse_failures"],
            "samples": [{"src": r["src"][:200], "solo": r["solo"][:120]} for r in results[12:15]],
            "programs_with_problems": nprob, "make_ok": ok_make,
        }
        res.assumptions = ["map iteration order aside: generated programs loop over maps of at most one entry"]
        return res.finish()
    finally:
        shutil.rmtree(scratch, ignore_errors=True)
