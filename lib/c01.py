"""C01: a script can never crash the embedding Go program."""
import json, os, re, shutil
import common
from common import Result, CheckError

PID = "C01"
COUNTS = {"quick": 13400, "thorough": 300000}
# faults the property places outside the guarantee: exhausting memory or stack
EXCLUDED = re.compile(r"allocation size out of range|makeslice: (len|cap) out of range|makechan: size out of range|"
                      r"out of memory|cannot allocate|stack overflow|goroutine stack exceeds|makemap: size out of range")


def run(tier, seed, replay=None):
    res = Result(PID, tier, seed)
    harness = common.build_harness()
    bad = common.forbidden_scan()
    driver, ok_make, log = common.build_model()
    ob = common.property_obligations(PID)
    scratch = common.scratch_dir("c01")
    try:
        n = COUNTS.get(tier, COUNTS["quick"])
        common.sh([harness, "c01", "-seed", str(seed), "-n", str(n), "-out", scratch], env=common.GOENV, timeout=6000)
        meta = json.load(open(os.path.join(scratch, "meta.json")))
        results = [json.loads(l) for l in open(os.path.join(scratch, "results.jsonl"))]
        excluded = timeouts = notrun = 0
        known, _ = common.known_findings(PID)
        known_seen = set()
        for r in results:
            st = r["status"]
            if st in ("panic", "crash"):
                if EXCLUDED.search(r.get("msg", "")):
                    excluded += 1
                    continue
                kf = next((k for k in known if k.get("sig", "").startswith("source:") and k["sig"][len("source:"):].replace("_", " ") in r["src"]), None)
                if kf:
                    if kf["id"] not in known_seen:
                        known_seen.add(kf["id"])
                        res.known(kf["id"], "%s :: %s (%s)" % (kf["id"], r["src"][:160], r.get("msg", "")[:120]))
                    continue
                if len(res.violations) < 12:
                    res.violation({"property": PID, "kind": "a Go panic / fatal fault escaped into the host (%s)" % st,
                                   "source": r["src"], "stream": r["stream"], "fault": r.get("msg", "")[:600],
                                   "how_to_replay": "vm.RunContext(ctx, env, &vm.Options{Debug:false}, parser.ParseSrc(source)) "
                                                    "in the environment of harness/c01.go c01Env()"})
                else:
                    res.violations.append(res.violations[-1])
            elif st == "timeout":
                timeouts += 1
            elif st == "not-run":
                notrun += 1
        if notrun:
            raise CheckError("%d programs were not run (child restarts: %d)" % (notrun, meta["child_restarts"]))
        if bad:
            res.violation({"property": PID, "kind": "forbidden construct in the Coq development", "lines": bad}, "no-failing-input-found")
        if ob["failed"]:
            res.violation({"property": PID, "kind": "proof obligation no longer checks", "failed": ob["failed"]},
                          "" if res.violations else "no-failing-input-found")
        distinct = len(set(r["src"] for r in results if r["status"] in ("ok", "err")))
        res.coverage = {
            "obligations": ob["obligations"], "discharged": ob["discharged"], "theorems": ob["theorems"],
            "axioms": ob["axioms"], "closed_under_global_context": ob["closed_count"],
            "checker_cmd": "make -C coq; coqc Properties/C01.v; harness c01 (child processes, ulimit -v, watchdog)",
            "trusted_base": common.TRUSTED_COMMON + [
                "oracle is the property itself: the child process running the real parser and interpreter (Debug=false) neither "
                "panics on the calling goroutine nor dies; memory/stack exhaustion (EXCLUDED patterns) is outside the guarantee"],
            "evaluations": len(results), "distinct_nontrivial": distinct,
            "rule": "%d degenerate forms the grammar allows (empty right-hand sides, zero-argument spreads, ill-typed operands for "
                    "every operator and statement, nil and nil-pointer elements, huge counts, closed channels, panicking Go functions "
                    "under go/defer) alone and inside a function, try, loop and ??; grammar-directed programs over every node kind "
                    "with identifiers mapped onto an environment of script-constructible values and Go functions; semantic programs; "
                    "byte-mutated programs and random bytes (trees are run even after a parse error, as the suite does); each in a "
                    "child process with a 400-poll / 300 ms cancellation; non-trivial = distinct source that parsed and ran" % 237,
            "streams": meta["stats"], "child_restarts": meta["child_restarts"],
            "excluded_memory_faults": excluded, "timeouts_not_violations": timeouts,
            "samples": [{"src": r["src"][:200], "status": r["status"]} for r in results[300:303]],
            "make_ok": ok_make,
        }
        res.assumptions = ["environment class: harness/c01.go c01Env (nil, bool, numbers, strings, slices, maps, typed slices/maps, "
                           "channel, nil pointer element, struct pointer, module, Go functions incl. panicking ones)",
                           "Options.Debug = false"]
        return res.finish()
    finally:
        shutil.rmtree(scratch, ignore_errors=True)
