"""C15: parsing is total, position-accurate and compositional."""
import base64, json, os, shutil
import common
from common import Result, CheckError

PID = "C15"
COUNTS = {"quick": 6000, "thorough": 400000}


def run(tier, seed, replay=None):
    res = Result(PID, tier, seed)
    harness = common.build_harness()
    bad = common.forbidden_scan()
    driver, ok_make, log = common.build_model()
    scratch = common.scratch_dir("c15")
    try:
        n = COUNTS.get(tier, COUNTS["quick"])
        common.sh([harness, "c15", "-seed", str(seed), "-n", str(n), "-out", scratch, "-repo", common.REPO], env=common.GOENV, timeout=20000)
        ob = common.property_obligations(PID)
        meta = json.load(open(os.path.join(scratch, "meta.json")))
        cases, results, midx = meta["cases"], meta["results"], meta["model_index"]
        mlines = common.run_driver(driver, os.path.join(scratch, "cases.sx"))
        kinds, outcomes = {}, {}
        nviol = 0

        def src_of(c):
            return base64.b64decode(c["a"])

        def report(rec, suffix=""):
            nonlocal nviol
            nviol += 1
            if len(res.violations) < 10:
                res.violation(rec, suffix)

        for c, r in zip(cases, results):
            kinds[c["kind"]] = kinds.get(c["kind"], 0) + 1
            o = r["outcome"].split(" ")[0]
            outcomes[c["kind"] + "/" + o] = outcomes.get(c["kind"] + "/" + o, 0) + 1
            raw = src_of(c)
            shown = raw[:300].decode("utf-8", "backslashreplace") + ("..." if len(raw) > 300 else "")
            base = {"property": PID, "input_class": c["kind"], "input_base64": c["a"] if len(c["a"]) < 4000 else c["a"][:4000] + "...",
                    "input_shown": shown, "how_to_replay": "parser.ParseSrc(input)"}
            if c["kind"] == "pair":
                for pr in r.get("problems") or []:
                    report(dict(base, kind="concatenation law: " + pr[:600], second_base64=c["b"], second_shown=base64.b64decode(c["b"])[:300].decode("utf-8", "backslashreplace"),
                                how_to_replay="ParseSrc(a), ParseSrc(b), ParseSrc(a + \"\\n\" + b); compare statement lists with positions"))
                continue
            if o in ("PANIC", "TIMEOUT", "CRASH"):
                report(dict(base, kind="ParseSrc does not return normally: " + r["outcome"][:300]))
                continue
            if r.get("scanstop"):
                report(dict(base, kind="Scanner.Scan keeps returning tokens without reaching EOF (no progress)"))
            for pr in r.get("problems") or []:
                report(dict(base, kind=pr[:600]))
            if o == "error":
                if r["errtype"] != "*parser.Error":
                    report(dict(base, kind="the error is not a *parser.Error: " + r["errtype"]))
                else:
                    if not r.get("pos_ok"):
                        report(dict(base, kind="error position out of range", line=r["line"], column=r["col"], message=r["msg"],
                                    lines_in_input=r.get("nlines"), length_of_that_line_in_runes=r.get("line_len")))
            elif o == "ok" and c["kind"] != "deep" and not r["tree"] and raw.strip(b" \t\r\n;") and not raw.lstrip().startswith((b"#", b"//", b"/*")):
                pass   # a nil tree with a nil error for sources made of terminators / comments only is fine
        # scanner model against the real scanner
        nscan = 0
        for i, ml in zip(midx, mlines):
            real = results[i]["tokens"]
            if real and ml.strip() != real.strip():
                nscan += 1
                c = cases[i]
                if nscan <= 6:
                    rt, mt = real.strip(), ml.strip()
                    k = 0
                    while k < min(len(rt), len(mt)) and rt[k] == mt[k]:
                        k += 1
                    report({"property": PID, "kind": "the real scanner and the scanner model produce different token streams",
                            "input_class": c["kind"], "input_base64": c["a"], "input_shown": src_of(c)[:300].decode("utf-8", "backslashreplace"),
                            "first_difference_at": k, "real": rt[max(0, k - 80):k + 160], "model": mt[max(0, k - 80):k + 160],
                            "token_format": "(kind (runes of the literal) line column error?)"}, "no-failing-input-found")
        if bad:
            res.violation({"property": PID, "kind": "forbidden construct in the Coq development", "lines": bad}, "no-failing-input-found")
        if ob["failed"] and not res.violations:
            res.violation({"property": PID, "kind": "proof obligation no longer checks", "failed": ob["failed"]}, "no-failing-input-found")
        res.coverage = {
            "obligations": ob["obligations"], "discharged": ob["discharged"], "theorems": ob["theorems"], "axioms": ob["axioms"],
            "closed_under_global_context": ob["closed_count"], "obligation_failures": ob["failed"],
            "checker_cmd": "make -C coq; coqc Properties/C15.v; harness c15 (inputs run in restartable child processes: real Scanner token stream, "
                           "ParseSrc outcome, 12 concurrent parses, concatenation law); extracted scanner model entry c15",
            "trusted_base": common.TRUSTED_COMMON + [
                "unicode.IsLetter is a parameter of the scanner model, instantiated for extraction by ASCII letters + 5 listed non-ASCII letters; inputs with "
                "other non-ASCII runes are checked on the implementation only",
                "reflection-based statement dump with positions (harness/c14.go fullDump) and the textual line shift applied to it"],
            "evaluations": len(cases), "distinct_nontrivial": len(set(c["a"] + c.get("b", "") for c in cases)),
            "rule": "121 directed lexical/grammatical edge cases; grammar-generated programs; 1-2 mutations of such (truncate, delete/duplicate a span, insert "
                    "or substitute a lexical piece); token soup over 110 pieces (every operator prefix, quotes, escapes, comment openers, number forms, "
                    "letters incl. non-ASCII, control bytes); random bytes; deep nestings (12 forms, depth 10-5000); pairs of valid programs for the "
                    "concatenation law (+18 directed pairs); every input: terminates within 5 s, no panic, nil error or *parser.Error with line/column "
                    "inside the input; valid and mutated inputs parsed by 12 goroutines at once; token streams compared with the Coq scanner model",
            "input_classes": kinds, "outcomes": outcomes, "scanner_model_inputs": len(midx), "scanner_model_mismatches": nscan,
            "violations_total": nviol, "make_ok": ok_make,
            "samples": [{"class": cases[i]["kind"], "input": src_of(cases[i])[:80].decode("utf-8", "backslashreplace"), "outcome": results[i]["outcome"][:40],
                         "line": results[i]["line"], "col": results[i]["col"]} for i in (130, 131, 132)],
        }
        res.assumptions = ["termination and absence of panics of the LALR driver are established by execution over the generated inputs, not proved",
                           "per-input time limit 5 s"]
        return res.finish()
    finally:
        shutil.rmtree(scratch, ignore_errors=True)
