"""C20: a value behaves the same wherever it came from."""
import interpcheck

BASE = {}
STRUCT_VALUES = ("emptystruct", "structval")


def impl_oracle(c):
    """metamorphic, on the implementation alone: template(value) through any provenance chain yields
    what it yields with the plain variable provenance (the first program of each (template, value))"""
    t = c.get("tags")
    if not t or c["impl"]["status"] in ("parse-error", "timeout"):
        return []
    key = (t[0], t[1])
    got = (c["impl"]["status"], c["impl"].get("result"))
    if t[2] == "var":
        BASE[key] = got
        return []
    want = BASE.get(key)
    if want is None or want == got:
        return []
    if c["impl"]["status"] == "panic":
        return []   # reported by the generic panic rule
    msg = ("operation %s on a %s value obtained through %s gives %s %s, but %s %s when read from a variable"
           % (t[0], t[1], t[2], got[0], got[1], want[0], want[1]))
    if t[0].startswith("addr-store") and t[1] in STRUCT_VALUES:
        # known_findings.txt: a struct made with make is a cell that `t = v` shares and `&t` points into, a struct that came out of
        # a container or a Go function is a value
        return [(msg, "struct-made-by-make-is-a-cell")]
    return [msg]


# where a value sits when it is operated on in place is part of where it came from: a string in a variable, a list slot, a typed
# slot or a struct field takes a character store the same way
EXPECT = []
for _mk, _t in (("t = \"abc\"", "t"), ("l = [\"abc\"]", "l[0]"), ("a = make([]string, 1); a[0] = \"abc\"", "a[0]"), ("s = make(struct { S string }); s.S = \"abc\"", "s.S"),
                ("a = make([]string, 1); a[0] = \"abc\"; u = a[0]", "u"), ("p = new(string); *p = \"abc\"; u = *p", "u")):
    for _v, _want, _what in (("\"xyz\"", "s:6178797a63", "several bytes"), ("\"\"", "s:6163", "no byte"), ("\"q\"", "s:617163", "one byte")):
        EXPECT.append({"src": "%s; %s[1] = %s; %s" % (_mk, _t, _v, _t), "field": "result", "want": _want,
                       "why": "%s stored at an index of a string held in %s: the same new string as for a string in a variable" % (_what, _t)})


def run(tier, seed, replay=None):
    BASE.clear()
    return interpcheck.run_interp_check(
        "C20", "c20", ("result",), {"quick": 1, "thorough": 100000}, tier, seed,
        rule="complete product of 88 operation templates (every unary/binary operator with the operand on either side, ordering and equality against the float64-indistinguishable neighbours of +-(2^53+1), index, slice, len, in, call, spread into "
             "fixed/variadic/Go functions, member, map key, for-in, switch subject and case, conditions, ternary, ??, throw, "
             "assignment targets, delete, defer, var, multi-assignment, return list, Go call arguments, string conversion, ordering against neighbours of 2^53, == / != against the same value, deref) x 15 "
             "operand values (int, 0, float, string, numeral string, bool, nil, slice, empty slice, map, function, nested slice, +-(2^53+1), pointer) "
             "x provenance chains over 10 hop kinds (element, map entry, member, script call, Go call returning interface{}, "
             "parentheses, ternary, ??, parameter, second element): all chains of length 1, 25% of length 2 (thorough: length 3 "
             "sampled); oracle on the implementation alone: same result value, dynamic type and error-or-success as with the "
             "plain variable; and agreement with the (provenance-blind) Coq model; plus 16 templates (method calls, method values, len, index, "
             "member, for-in, +, ==, deref) x 4 Go values of named non-struct types with methods (time.Duration, url.Values, sort.IntSlice, "
             "*time.Duration) x chains, judged by the same law on the implementation alone (the model has no such values)",
        design_ref="DESIGN.md §4 C20", impl_oracle=impl_oracle, max_dropped=0.2, expectations=EXPECT)
