package main

// C11: values and calls cross the Go boundary faithfully.  Go functions of many signatures are
// bound into the environment; each logs exactly what it received (with dynamic types).  Scripts call
// them with every script value and call shape; what arrives and what comes back is compared with a
// native computation: Go's own conversion (reflect.Value.Convert where the types are convertible),
// element by element for slices and maps, the zero value for nil.

import (
	"math"
	"encoding/json"
	"errors"
	"fmt"
	"os"
	"path/filepath"
	"reflect"
	"sort"
	"strings"

	"github.com/mattn/anko/env"
	"github.com/mattn/anko/vm"
)

type c11Case struct {
	Src  string `json:"src"`
	Got  string `json:"got"`
	Want string `json:"want"`
	Why  string `json:"why"`
	// for the Coq model of the conversion: value and target type as S-expressions ("" when outside it)
	ModelIn string `json:"model_in,omitempty"`
}

type c11Obj struct {
	N    int64
	Name string
	Tags []string
}

func (o c11Obj) Get() int64           { return o.N }
func (o c11Obj) Add(d int64) int64    { return o.N + d }
func (o *c11Obj) Inc()                { o.N++ }
func (o *c11Obj) SetName(s string)    { o.Name = s }
func (o *c11Obj) Label() string {
	if o == nil {
		return "nil-label"
	}
	return o.Name
}
func (o *c11Obj) Sum(xs ...int64) int64 {
	t := o.N
	for _, x := range xs {
		t += x
	}
	return t
}

// named non-struct types with methods on the value and on the pointer
// a method of the outer type named like a field promoted from an embedded struct: Go resolves the name to the shallowest
// member, the method
type c11ItemBase struct {
	ID    int64
	Label string
}
type c11Item struct {
	c11ItemBase
	N int64
}

func (it c11Item) ID() string                   { return fmt.Sprintf("item-%d", it.c11ItemBase.ID) }
func (it *c11Item) Label(l string, n int64) string { return fmt.Sprintf("%s%s/%d", l, it.c11ItemBase.Label, n+it.N) }

type c11Stack []int64

func (s *c11Stack) Push(xs ...int64) int64 { *s = append(*s, xs...); return int64(len(*s)) }
func (s c11Stack) Top() int64 {
	if len(s) == 0 {
		return -1
	}
	return s[len(s)-1]
}

type c11Counter int64

func (c *c11Counter) Add(d int64) (int64, bool) { *c += c11Counter(d); return int64(*c), *c > 4 }
func (c c11Counter) Twice() int64              { return 2 * int64(c) }

type c11Dict map[string]int64

func (d *c11Dict) Put(k string, v int64) int64 { (*d)[k] = v; return int64(len(*d)) }
func (d c11Dict) Has(k string) bool            { _, ok := d[k]; return ok }

// a struct that embeds a pointer: the promoted fields exist only while the pointer is set
type C11Inner struct{ Y int64 }
type c11Outer struct {
	*C11Inner
	Z int64
}

// a Go error type, handed out by Go functions as the interface type error and wanted back as the pointer it is
type c11Err struct{ Code int64 }

func (e *c11Err) Error() string  { return fmt.Sprint("c11Err ", e.Code) }
func (e *c11Err) String() string { return "E" + fmt.Sprint(e.Code) }

var c11Types = []struct {
	name string
	t    reflect.Type
}{
	{"int", reflect.TypeOf(int(0))}, {"int8", reflect.TypeOf(int8(0))}, {"int16", reflect.TypeOf(int16(0))}, {"int32", reflect.TypeOf(int32(0))},
	{"int64", reflect.TypeOf(int64(0))}, {"uint", reflect.TypeOf(uint(0))}, {"uint8", reflect.TypeOf(uint8(0))}, {"uint16", reflect.TypeOf(uint16(0))},
	{"uint32", reflect.TypeOf(uint32(0))}, {"uint64", reflect.TypeOf(uint64(0))}, {"float32", reflect.TypeOf(float32(0))}, {"float64", reflect.TypeOf(float64(0))},
	{"string", reflect.TypeOf("")}, {"bool", reflect.TypeOf(false)}, {"iface", reflect.TypeOf((*interface{})(nil)).Elem()},
	{"error", reflect.TypeOf((*error)(nil)).Elem()}, {"pint64", reflect.TypeOf((*int64)(nil))},
	{"sl_int64", reflect.TypeOf([]int64{})}, {"sl_string", reflect.TypeOf([]string{})}, {"sl_float64", reflect.TypeOf([]float64{})},
	{"sl_byte", reflect.TypeOf([]byte{})}, {"sl_iface", reflect.TypeOf([]interface{}{})}, {"sl_sl_int64", reflect.TypeOf([][]int64{})},
	{"sl_int8", reflect.TypeOf([]int8{})}, {"sl_bool", reflect.TypeOf([]bool{})},
	{"map_string_int64", reflect.TypeOf(map[string]int64{})}, {"map_string_iface", reflect.TypeOf(map[string]interface{}{})},
	{"map_iface_iface", reflect.TypeOf(map[interface{}]interface{}{})}, {"map_int64_string", reflect.TypeOf(map[int64]string{})},
	{"map_string_sl_int64", reflect.TypeOf(map[string][]int64{})},
	{"arr2_int64", reflect.TypeOf([2]int64{})}, {"arr3_iface", reflect.TypeOf([3]interface{}{})}, {"arr0_string", reflect.TypeOf([0]string{})},
}

var c11Values = []c10Val{
	{"nil", nil}, {"true", true}, {"false", false}, {"0", int64(0)}, {"1", int64(1)}, {"-1", int64(-1)}, {"65", int64(65)}, {"127", int64(127)}, {"128", int64(128)},
	{"255", int64(255)}, {"256", int64(256)}, {"-129", int64(-129)}, {"65536", int64(65536)}, {"1099511627776", int64(1 << 40)}, {"-1099511627776", int64(-(1 << 40))},
	{"9223372036854775807", int64(1<<63 - 1)}, {"16777217", int64(16777217)}, {"1.5", 1.5}, {"-2.75", -2.75}, {"0.1", 0.1}, {"3.0", 3.0}, {"16777217.0", 16777217.0}, {"1e10", 1e10},
	{"-1.5", -1.5}, {"-0.5", -0.5}, {"255.9", 255.9}, {"-129.0", -129.0}, {"4294967296.5", 4294967296.5}, {"1e19", 1e19}, {"1e20", 1e20}, {"-1e19", -1e19},
	{"9223372036854775808.0", 9223372036854775808.0}, {"18446744073709549568.0", 18446744073709549568.0}, {"18446744073709551616.0", 18446744073709551616.0},
	{"-9223372036854775808.0", -9223372036854775808.0}, {"1e300", 1e300}, {"1e-300", 1e-300}, {"3.4028235677973366e38", 3.4028235677973366e38}, {"1e-45", 1e-45},
	{"9007199254740993", int64(9007199254740993)}, {"-16777217", int64(-16777217)}, {"[1.5, -2, 1e20]", []interface{}{1.5, int64(-2), 1e20}},
	{`""`, ""}, {`"a"`, "a"}, {`"ab"`, "ab"}, {`"é"`, "é"}, {`"12"`, "12"},
	{"[]", []interface{}{}}, {"[1, 2]", []interface{}{int64(1), int64(2)}}, {"[1, 2.5]", []interface{}{int64(1), 2.5}}, {`[1, "x"]`, []interface{}{int64(1), "x"}},
	{`["a", "b"]`, []interface{}{"a", "b"}}, {"[[1], [2, 3]]", []interface{}{[]interface{}{int64(1)}, []interface{}{int64(2), int64(3)}}}, {"[nil, 1]", []interface{}{nil, int64(1)}},
	{"[300, -1]", []interface{}{int64(300), int64(-1)}}, {"[true, false]", []interface{}{true, false}},
	{"{}", map[interface{}]interface{}{}}, {`{"a": 1}`, map[interface{}]interface{}{"a": int64(1)}}, {`{"a": "x"}`, map[interface{}]interface{}{"a": "x"}},
	{`{1: "one"}`, map[interface{}]interface{}{int64(1): "one"}}, {`{"k": [1, 2]}`, map[interface{}]interface{}{"k": []interface{}{int64(1), int64(2)}}}, {`{"a": nil}`, map[interface{}]interface{}{"a": nil}},
}

var c11Iface = reflect.TypeOf((*interface{})(nil)).Elem()

// the native conversion: what Go itself does for convertible types, element-wise for containers
func c11Native(v interface{}, t reflect.Type) (out reflect.Value, ok bool) {
	defer func() {
		if recover() != nil {
			ok = false
		}
	}()
	if v == nil {
		return reflect.Zero(t), true
	}
	rv := reflect.ValueOf(v)
	if t == c11Iface || rv.Type() == t {
		return rv, true
	}
	if rv.Type().ConvertibleTo(t) {
		return rv.Convert(t), true
	}
	if rv.Kind() == reflect.Slice && t.Kind() == reflect.Array {
		// a list for an array parameter: element by element; a list longer than the array has no conversion (a shorter one is
		// not generated: the interpreter fills up with zero values where Go's own conversion would panic)
		if rv.Len() > t.Len() {
			return rv, false
		}
		o := reflect.New(t).Elem()
		for i := 0; i < rv.Len(); i++ {
			e, eok := c11Native(rv.Index(i).Interface(), t.Elem())
			if !eok {
				return rv, false
			}
			o.Index(i).Set(e)
		}
		return o, true
	}
	if rv.Kind() == reflect.Slice && t.Kind() == reflect.Slice {
		o := reflect.MakeSlice(t, rv.Len(), rv.Len())
		for i := 0; i < rv.Len(); i++ {
			e, eok := c11Native(rv.Index(i).Interface(), t.Elem())
			if !eok {
				return rv, false
			}
			o.Index(i).Set(e)
		}
		return o, true
	}
	if rv.Kind() == reflect.Map && t.Kind() == reflect.Map {
		o := reflect.MakeMap(t)
		for _, k := range rv.MapKeys() {
			kk, kok := c11Native(k.Interface(), t.Key())
			vv, vok := c11Native(rv.MapIndex(k).Interface(), t.Elem())
			if !kok || !vok {
				return rv, false
			}
			o.SetMapIndex(kk, vv)
		}
		return o, true
	}
	if rv.Kind() == reflect.String && (t.Kind() == reflect.Uint8 || t.Kind() == reflect.Int32) && t.PkgPath() == "" {
		// the interpreter's own extension: a string of at most one byte as a byte / rune
		s := rv.String()
		if len(s) > 1 {
			return rv, false
		}
		if len(s) == 0 {
			return reflect.Zero(t), true
		}
		return reflect.ValueOf(s[0]).Convert(t), true
	}
	return rv, false
}

// like c10ProjT, but a nil slice or map is not an empty one
func c11Proj(x interface{}) string {
	if x == nil {
		return "nil"
	}
	if _, ok := x.(error); ok {
		return c10ProjT(x)
	}
	rv := reflect.ValueOf(x)
	switch rv.Kind() {
	case reflect.Slice:
		if rv.IsNil() {
			return rv.Type().String() + "(nil)"
		}
		var p []string
		for i := 0; i < rv.Len(); i++ {
			p = append(p, c11Proj(rv.Index(i).Interface()))
		}
		return rv.Type().String() + "[" + strings.Join(p, ",") + "]"
	case reflect.Map:
		if rv.IsNil() {
			return rv.Type().String() + "(nil)"
		}
		var p []string
		for _, k := range rv.MapKeys() {
			p = append(p, c11Proj(k.Interface())+"=>"+c11Proj(rv.MapIndex(k).Interface()))
		}
		sort.Strings(p)
		return rv.Type().String() + "{" + strings.Join(p, ",") + "}"
	}
	switch f := x.(type) { // floats by their bits: the model has no float printer
	case float64:
		return fmt.Sprintf("float64:b%d", math.Float64bits(f))
	case float32:
		return fmt.Sprintf("float32:b%d", math.Float32bits(f))
	}
	return c10ProjT(x)
}

type c11Host struct{ log []string }

func (h *c11Host) rec(name string, args ...interface{}) {
	var p []string
	for _, a := range args {
		p = append(p, c11Proj(a))
	}
	h.log = append(h.log, name+"("+strings.Join(p, ", ")+")")
}

func c11Env(h *c11Host) *env.Env {
	e := env.NewEnv()
	for _, ty := range c11Types {
		ty := ty
		ft := reflect.FuncOf([]reflect.Type{ty.t}, []reflect.Type{c11Iface}, false)
		fn := reflect.MakeFunc(ft, func(in []reflect.Value) []reflect.Value {
			h.rec("id_"+ty.name, in[0].Interface())
			return []reflect.Value{in[0].Convert(c11Iface)}
		})
		e.DefineValue("id_"+ty.name, fn)
	}
	e.Define("fixed2", func(a int64, b string) interface{} { h.rec("fixed2", a, b); return a })
	e.Define("fixed3", func(a, b, c interface{}) interface{} { h.rec("fixed3", a, b, c); return c })
	e.Define("fixed0", func() interface{} { h.rec("fixed0"); return int64(0) })
	e.Define("var0", func(xs ...int64) interface{} { h.rec("var0", xs); return int64(len(xs)) })
	e.Define("var1", func(a string, xs ...interface{}) interface{} { h.rec("var1", a, xs); return int64(len(xs)) })
	e.Define("var2", func(a, b int64, xs ...float64) interface{} { h.rec("var2", a, b, xs); return int64(len(xs)) })
	e.Define("ret0", func() { h.rec("ret0") })
	e.Define("ret2", func(a int64) (int64, string) { h.rec("ret2", a); return a + 1, "two" })
	e.Define("ret3", func() (int64, []int64, error) { h.rec("ret3"); return 7, []int64{1, 2}, nil })
	e.Define("reterr", func(fail bool) (int64, error) {
		h.rec("reterr", fail)
		if fail {
			return 0, errors.New("failed")
		}
		return 1, nil
	})
	e.Define("find2", func(name string) (*c11Obj, error) {
		h.rec("find2", name)
		if name == "p" {
			return &c11Obj{N: 1, Name: "found"}, nil
		}
		return nil, errors.New("not found")
	})
	e.Define("match2", func(pat string) ([]string, map[string]int64, bool) { h.rec("match2", pat); return nil, nil, false })
	e.Define("cbnil", func(f func(error) string) string { h.rec("cbnil"); return f(nil) + "|" + f(errors.New("E")) })
	e.Define("cbany", func(f func(interface{}) interface{}) string {
		h.rec("cbany")
		return fmt.Sprintf("%v|%v|%v", f(nil), f(int64(1)), f("s"))
	})
	e.Define("cbmix", func(f func(int64, interface{}, []int64, error) interface{}) string {
		h.rec("cbmix")
		return fmt.Sprintf("%v|%v", f(1, nil, nil, nil), f(2, "x", []int64{3}, errors.New("E")))
	})
	e.Define("apply", func(f func(int64) int64, x int64) int64 { h.rec("apply", x); return f(x) + 1 })
	e.Define("apply2", func(f func(int64, string) (int64, string)) string {
		a, b := f(5, "s")
		h.rec("apply2", a, b)
		return fmt.Sprint(a, b)
	})
	e.Define("applyv", func(f func(...int64) int64) int64 { h.rec("applyv"); return f(1, 2, 3) })
	e.Define("applyii", func(f func(int64, int64) int64) int64 { h.rec("applyii"); return f(3, 4) })
	e.Define("apply1v", func(f func(string, ...int64) int64) int64 { h.rec("apply1v"); return f("s", 3, 4) })
	e.Define("applysl", func(f func(string, []int64) int64) int64 { h.rec("applysl"); return f("s", []int64{5, 6}) })
	e.Define("applyerr", func(f func(string) (int64, error)) string {
		n, err := f("in")
		h.rec("applyerr", n, err)
		return fmt.Sprint(n, err)
	})
	e.Define("applyany", func(f func() (interface{}, bool, *c11Obj, string, []int64)) string {
		a, b, c, d, l := f()
		h.rec("applyany", a, b, c == nil, d, l)
		return fmt.Sprintf("%v|%v|%v|%v|%v|%v", a, b, c == nil, d, l == nil, len(l))
	})
	e.Define("each", func(xs []int64, f func(int64)) { h.rec("each", xs); for _, x := range xs { f(x) } })
	e.Define("obj", c11Obj{N: 10, Name: "o", Tags: []string{"t"}})
	e.Define("pobj", &c11Obj{N: 20, Name: "p"})
	e.Define("mkerr", func(code int64) error { h.rec("mkerr", code); return &c11Err{code} })
	e.Define("mkstringer", func(code int64) fmt.Stringer { h.rec("mkstringer", code); return &c11Err{code} })
	e.Define("wanterrptr", func(p *c11Err) int64 { h.rec("wanterrptr"); return p.Code })
	e.Define("wanterr", func(x error) string { h.rec("wanterr"); return x.Error() })
	e.Define("errsl", []error{&c11Err{7}, nil})
	e.Define("eo", &c11Outer{Z: 4})
	e.Define("eo2", &c11Outer{C11Inner: &C11Inner{Y: 5}, Z: 6})
	e.Define("stk", &c11Stack{})
	e.Define("ctr", new(c11Counter))
	e.Define("dict", &c11Dict{})
	e.Define("vstk", c11Stack{4, 5})
	e.Define("item", c11Item{c11ItemBase{7, "seven"}, 1})
	e.Define("pitem", &c11Item{c11ItemBase{8, "eight"}, 2})
	// a slice passed for a parameter of another slice type with the same element type is converted as Go converts it:
	// same backing array, nil stays nil
	e.Define("sortdesc", func(x c11Stack) int64 {
		h.rec("sortdesc")
		sort.Slice(x, func(i, j int) bool { return x[i] > x[j] })
		return int64(len(x))
	})
	e.Define("stknil", func(x c11Stack) bool { h.rec("stknil"); return x == nil })
	e.Define("stkcap", func(x c11Stack) int64 { h.rec("stkcap"); return int64(cap(x)) })
	e.Define("setfirst", func(x []int64) { h.rec("setfirst"); x[0] = 99 })
	e.Define("nilints", []int64(nil))
	e.Define("ints3", []int64{1, 3, 2})
	e.Define("num8", int8(-5))
	e.Define("numu", uint16(500))
	e.Define("f32", float32(0.5))
	e.Define("bytes", []byte("hi"))
	e.Define("ints", []int64{4, 5})
	e.Define("smap", map[string]int64{"k": 3})
	e.Define("anerr", errors.New("E1"))
	e.Define("note", func(x interface{}) interface{} { h.rec("note", x); return x })
	return e
}

func c11RunSrc(src string) (string, []string) {
	h := &c11Host{}
	e := c11Env(h)
	var res string
	func() {
		defer func() {
			if p := recover(); p != nil {
				res = "PANIC " + fmt.Sprint(p)
			}
		}()
		v, err := vm.Execute(e, nil, src)
		if err != nil {
			res = "error"
			return
		}
		res = c11Proj(v)
	}()
	return res, h.log
}

func c11ModelVal(v interface{}) string {
	switch x := v.(type) {
	case nil:
		return "(nil)"
	case bool:
		if x {
			return "(b true)"
		}
		return "(b false)"
	case int64:
		return fmt.Sprintf("(i %d)", x)
	case string:
		var bs []string
		for _, b := range []byte(x) {
			bs = append(bs, fmt.Sprint(b))
		}
		return "(s " + strings.Join(bs, " ") + ")"
	case float64:
		return fmt.Sprintf("(f %d)", math.Float64bits(x))
	case []interface{}:
		var p []string
		for _, e := range x {
			m := c11ModelVal(e)
			if m == "" {
				return ""
			}
			p = append(p, m)
		}
		return "(l " + strings.Join(p, " ") + ")"
	}
	return "" // maps stay outside the Coq conversion model
}

func c11ModelType(name string) string {
	switch name {
	case "int", "int64":
		return "(int " + name + " 64)"
	case "int8":
		return "(int int8 8)"
	case "int16":
		return "(int int16 16)"
	case "int32":
		return "(int int32 32)"
	case "uint", "uint64":
		return "(uint " + name + " 64)"
	case "uint8":
		return "(uint uint8 8)"
	case "uint16":
		return "(uint uint16 16)"
	case "uint32":
		return "(uint uint32 32)"
	case "string":
		return "(string)"
	case "bool":
		return "(bool)"
	case "iface":
		return "(iface)"
	case "sl_int64":
		return "(slice (int int64 64))"
	case "sl_int8":
		return "(slice (int int8 8))"
	case "sl_string":
		return "(slice (string))"
	case "sl_byte":
		return "(slice (uint uint8 8))"
	case "sl_iface":
		return "(slice (iface))"
	case "sl_sl_int64":
		return "(slice (slice (int int64 64)))"
	case "sl_bool":
		return "(slice (bool))"
	case "float64":
		return "(float float64 64)"
	case "float32":
		return "(float float32 32)"
	case "sl_float64":
		return "(slice (float float64 64))"
	}
	return ""
}

func c11Cases(rnd *Rand) []c11Case {
	var out []c11Case
	add := func(src, want, why string) *c11Case {
		res, log := c11RunSrc(src)
		out = append(out, c11Case{Src: src, Got: strings.Join(log, "; ") + " => " + res, Want: want, Why: why})
		return &out[len(out)-1]
	}
	// 1. conversion product: every value into every parameter type
	for _, ty := range c11Types {
		for _, v := range c11Values {
			if l, isList := v.val.([]interface{}); isList && ty.t.Kind() == reflect.Array && len(l) < ty.t.Len() {
				continue
			}
			conv, ok := c11Native(v.val, ty.t)
			want := " => error"
			if ok {
				p := c11Proj(conv.Interface())
				if !conv.IsValid() || (conv.Kind() == reflect.Interface && conv.IsNil()) {
					p = "nil"
				}
				want = "id_" + ty.name + "(" + p + ") => " + p
			}
			c := add("id_"+ty.name+"("+v.src+")", want, "a script value passed to a Go parameter of type "+ty.t.String()+" arrives as Go's conversion, or the call fails")
			if mv, mt := c11ModelVal(v.val), c11ModelType(ty.name); mv != "" && mt != "" {
				c.ModelIn = "(" + mv + " " + mt + ")"
			}
		}
	}
	p := c11Proj
	// 2. call shapes
	add("fixed2(1, \"x\")", "fixed2("+p(int64(1))+", "+p("x")+") => "+p(int64(1)), "fixed function, plain call")
	add("fixed2(1)", " => error", "too few arguments")
	add("fixed2(1, \"x\", 3)", " => error", "too many arguments")
	add("fixed2([1, \"x\"]...)", "fixed2("+p(int64(1))+", "+p("x")+") => "+p(int64(1)), "fixed function, spread call")
	add("fixed2(1, [\"x\"]...)", "fixed2("+p(int64(1))+", "+p("x")+") => "+p(int64(1)), "fixed function, spread call with a leading argument")
	add("fixed2([1]...)", " => error", "spread call with too few elements")
	add("fixed2([1, \"x\", 3]...)", " => error", "spread call with too many elements: exactly the supplied arguments")
	add("fixed3(1, nil, [2])", "fixed3("+p(int64(1))+", nil, "+p([]interface{}{int64(2)})+") => "+p([]interface{}{int64(2)}), "interface parameters receive the values unchanged")
	add("fixed0()", "fixed0() => "+p(int64(0)), "no parameters")
	add("fixed0(1)", " => error", "arguments to a function without parameters")
	add("var0()", "var0("+p([]int64{})+") => "+p(int64(0)), "variadic function, no variadic arguments (reflect.Call passes an empty slice)")
	add("var0(1, 2, 3)", "var0("+p([]int64{1, 2, 3})+") => "+p(int64(3)), "variadic function, plain call")
	add("var0(1, 2.5)", "var0("+p([]int64{1, 2})+") => "+p(int64(2)), "variadic tail converted element by element")
	add("var0(1, \"x\")", " => error", "variadic tail element without a conversion")
	add("var0([1, 2]...)", "var0("+p([]int64{1, 2})+") => "+p(int64(2)), "variadic function, spread call")
	add("var0([]...)", "var0("+p([]int64{})+") => "+p(int64(0)), "variadic function, empty spread")
	add("var1(\"a\")", "var1("+p("a")+", "+p([]interface{}{})+") => "+p(int64(0)), "variadic function with a fixed parameter")
	add("var1(\"a\", 1, nil, [2])", "var1("+p("a")+", "+p([]interface{}{int64(1), nil, []interface{}{int64(2)}})+") => "+p(int64(3)), "variadic interface tail")
	add("var1(\"a\", [1, 2]...)", "var1("+p("a")+", "+p([]interface{}{int64(1), int64(2)})+") => "+p(int64(2)), "variadic function with a fixed parameter, spread call")
	add("var1()", " => error", "missing fixed parameter of a variadic function")
	add("var2(1, 2, 3, 4.5)", "var2("+p(int64(1))+", "+p(int64(2))+", "+p([]float64{3, 4.5})+") => "+p(int64(2)), "variadic function, two fixed parameters")
	add("var2(1, 2, [3, 4.5]...)", "var2("+p(int64(1))+", "+p(int64(2))+", "+p([]float64{3, 4.5})+") => "+p(int64(2)), "variadic function, two fixed parameters, spread")
	add("var2(1)", " => error", "too few fixed arguments of a variadic function")
	// 3. results
	add("ret0()", "ret0() => nil", "no result")
	add("ret2(4)", "ret2("+p(int64(4))+") => "+p([]interface{}{int64(5), "two"}), "several results come back as a list")
	add("a, b = ret2(4); [b, a]", "ret2("+p(int64(4))+") => "+p([]interface{}{"two", int64(5)}), "several results can be destructured")
	add("ret3()", "ret3() => "+p([]interface{}{int64(7), []int64{1, 2}, nil}), "three results, typed slice and nil error kept")
	add("find2(\"x\")", "find2("+p("x")+") => "+p([]interface{}{(*c11Obj)(nil), errors.New("not found")}), "a nil pointer among several results keeps its type")
	add("n, err = find2(\"x\"); n.Label()", "find2("+p("x")+") => "+p("nil-label"), "a method with a pointer receiver is callable on the nil pointer a Go function returned")
	add("n, err = find2(\"p\"); [n.Label(), err]", "find2("+p("p")+") => "+p([]interface{}{"found", nil}), "(pointer, nil error)")
	add("match2(\"?\")", "match2("+p("?")+") => "+p([]interface{}{[]string(nil), map[string]int64(nil), false}), "nil slice and nil map among several results keep their types")
	add("names, m, ok = match2(\"?\"); [len(names), len(m), ok]", "match2("+p("?")+") => "+p([]interface{}{int64(0), int64(0), false}), "a returned nil slice / map has length 0")
	add("fixed2([nil, \"x\"]...)", "fixed2("+p(int64(0))+", "+p("x")+") => "+p(int64(0)), "nil in a spread list arrives as the zero value of the parameter type")
	add("fixed2([3, nil]...)", "fixed2("+p(int64(3))+", "+p("")+") => "+p(int64(3)), "nil in a spread list arrives as the zero value (string parameter)")
	add("fixed3([nil, 1, nil]...)", "fixed3("+p(nil)+", "+p(int64(1))+", "+p(nil)+") => "+p(nil), "nil in a spread list into interface{} parameters arrives as nil")
	add("fixed2(nil, nil)", "fixed2("+p(int64(0))+", "+p("")+") => "+p(int64(0)), "nil arguments of a plain call arrive as zero values")
	add("reterr(false)", "reterr("+p(false)+") => "+p([]interface{}{int64(1), nil}), "(value, nil error)")
	add("r = reterr(true); [r[0], r[1] != nil]", "reterr("+p(true)+") => "+p([]interface{}{int64(0), true}), "(value, error) comes back as a pair")
	// 4. Go values through the environment, containers, identity
	add("note(num8)", "note("+p(int8(-5))+") => "+p(int8(-5)), "a bound Go value keeps its dynamic type")
	add("note([num8, numu, f32][1])", "note("+p(uint16(500))+") => "+p(uint16(500)), "through a container")
	add("m = {\"k\": f32}; note(m.k)", "note("+p(float32(0.5))+") => "+p(float32(0.5)), "through a map entry")
	add("x = id_iface(bytes); note(x)", "id_iface("+p([]byte("hi"))+"); note("+p([]byte("hi"))+") => "+p([]byte("hi")), "through a Go identity function")
	add("note(ints)[1]", "note("+p([]int64{4, 5})+") => "+p(int64(5)), "typed slice bound into the environment")
	add("note(smap).k", "note("+p(map[string]int64{"k": 3})+") => "+p(int64(3)), "typed map bound into the environment")
	add("id_error(anerr) == anerr", "id_error("+p(errors.New("E1"))+") => "+p(true), "an error value passes as an error")
	add("id_int8(num8)", "id_int8("+p(int8(-5))+") => "+p(int8(-5)), "same type: unchanged")
	add("id_int64(numu)", "id_int64("+p(int64(500))+") => "+p(int64(500)), "Go value converted like Go converts")
	// 5. methods and fields
	add("obj.Get()", " => "+p(int64(10)), "value-receiver method")
	add("obj.Add(5)", " => "+p(int64(15)), "method with an argument")
	add("obj.Add(2.9)", " => "+p(int64(12)), "method argument converted")
	add("obj.Add(\"x\")", " => error", "method argument without a conversion")
	add("[obj.N, obj.Name, obj.Tags[0]]", " => "+p([]interface{}{int64(10), "o", "t"}), "exported fields")
	add("pobj.Inc(); pobj.Inc(); pobj.N", " => "+p(int64(22)), "pointer-receiver method through a pointer")
	add("pobj.SetName(\"q\"); pobj.Name", " => "+p("q"), "pointer-receiver method with an argument")
	add("pobj.N = 7; pobj.Get()", " => "+p(int64(7)), "field write through a pointer, value-receiver method on the pointer")
	add("pobj.Sum(1, 2, 3)", " => "+p(int64(26)), "variadic method")
	add("pobj.Sum([1, 2]...)", " => "+p(int64(23)), "variadic method, spread")
	add("stk.Push(1); stk.Push([2, 3]...)", " => "+p(int64(3)), "pointer-receiver variadic method of a named slice type, through a pointer; plain and spread call")
	add("stk.Push(7); stk.Top()", " => "+p(int64(7)), "value-receiver method of a named slice type through a pointer, after a pointer-receiver call changed it")
	add("ctr.Add(2); ctr.Add(3)", " => "+p([]interface{}{int64(5), true}), "pointer-receiver method of a named integer type: the Go value is updated, both results come back")
	add("ctr.Add(2); ctr.Twice()", " => "+p(int64(4)), "value-receiver method of a named integer type through a pointer")
	add("dict.Put(\"a\", 1); dict.Put(\"b\", 2)", " => "+p(int64(2)), "pointer-receiver method of a named map type")
	add("dict.Put(\"a\", 1); [dict.Has(\"a\"), dict.Has(\"z\")]", " => "+p([]interface{}{true, false}), "value-receiver method of a named map type through a pointer")
	add("vstk.Top()", " => "+p(int64(5)), "value-receiver method of a named slice value")
	add("sortdesc(ints3); ints3", "sortdesc() => "+p([]int64{3, 2, 1}), "a []int64 passed for a named slice type shares its backing array with what the Go function gets: an in-place sort is seen by the caller")
	add("a = make([]int64, 3); a[0] = 1; a[1] = 3; a[2] = 2; sortdesc(a); a", "sortdesc() => "+p([]int64{3, 2, 1}), "... also for a slice made by the script")
	add("b = ints3[0:2]; sortdesc(b); ints3", "sortdesc() => "+p([]int64{3, 1, 2}), "... and for a view of it")
	add("stknil(nilints)", "stknil() => "+p(true), "a nil []int64 arrives as a nil value of the named slice type")
	add("stkcap(ints3[0:1])", "stkcap() => "+p(int64(3)), "the capacity is kept")
	add("setfirst(vstk); vstk.Top() + vstk[0]", "setfirst() => "+p(int64(104)), "a value of a named slice type passed for []int64 shares its backing array")
	add("item.ID()", " => "+p("item-7"), "a method named like a field promoted from an embedded struct is the member of that name (value)")
	add("pitem.ID()", " => "+p("item-8"), "... through a pointer")
	add("pitem.Label(\"<\", 10)", " => "+p("<eight/12"), "a pointer-receiver method named like a promoted field, through a pointer")
	add("f = pitem.ID; f()", " => "+p("item-8"), "... as a method value")
	add("[item.N, pitem.N]", " => "+p([]interface{}{int64(1), int64(2)}), "the own field next to them reads as a field")
	add("f = stk.Push; f(1, 2); f(3)", " => "+p(int64(3)), "method value of a pointer-receiver method of a named slice type")
	// a value that a Go function hands out as a non-empty interface type is the value it holds, wherever it is used next
	add("wanterrptr(mkerr(3))", "mkerr("+p(int64(3))+"); wanterrptr() => "+p(int64(3)), "an error result passed straight on to a parameter of its concrete pointer type")
	add("x = mkerr(4); wanterrptr(x)", "mkerr("+p(int64(4))+"); wanterrptr() => "+p(int64(4)), "... through a variable")
	add("wanterrptr([mkerr(5)][0])", "mkerr("+p(int64(5))+"); wanterrptr() => "+p(int64(5)), "... through a list element")
	add("wanterrptr(errsl[0])", "wanterrptr() => "+p(int64(7)), "an element of a []error passed to a parameter of its concrete pointer type")
	add("wanterrptr(mkstringer(6))", "mkstringer("+p(int64(6))+"); wanterrptr() => "+p(int64(6)), "a fmt.Stringer result passed to a parameter of its concrete pointer type")
	add("wanterr(mkerr(8))", "mkerr("+p(int64(8))+"); wanterr() => "+p("c11Err 8"), "an error result passed to an error parameter")
	add("wanterr(mkstringer(9))", "mkstringer("+p(int64(9))+"); wanterr() => "+p("c11Err 9"), "a fmt.Stringer result whose value is an error passed to an error parameter")
	add("wanterrptr(errsl[1])", " => error", "a nil error for a pointer parameter")
	add("mkerr(2).Code", "mkerr("+p(int64(2))+") => "+p(int64(2)), "member access on an error result reads the field of the value it holds")
	add("eo.Z", " => "+p(int64(4)), "own field of a struct that embeds a nil pointer")
	add("eo.Y", " => error", "a field promoted from an embedded pointer that is nil: an error, never a crash")
	add("eo.Y = 1", " => error", "a store into a field promoted from an embedded pointer that is nil: an error, never a crash")
	add("r = (eo.Y ?? \"E\"); [r, eo.Z]", " => "+p([]interface{}{"E", int64(4)}), "... and the struct is unchanged")
	add("[eo2.Y, eo2.Z]", " => "+p([]interface{}{int64(5), int64(6)}), "a field promoted from an embedded pointer that is set")
	add("eo2.Y = 9; eo2.Y", " => "+p(int64(9)), "a store into a field promoted from an embedded pointer that is set")
	add("obj.Nope", " => error", "unknown member")
	add("pobj.N = \"x\"", " => error", "field write without a conversion")
	// 6. callbacks
	add("apply(func(x) { return x * 2 }, 5)", "apply("+p(int64(5))+") => "+p(int64(11)), "script function as a Go func(int64) int64")
	add("apply(func(x) { return \"s\" }, 5)", "apply("+p(int64(5))+") => error", "callback result without a conversion")
	add("apply(func(x) { return x * 1.5 }, 5)", "apply("+p(int64(5))+") => "+p(int64(8)), "callback result converted to the declared type")
	add("apply(func(x) { throw \"bad\" }, 5)", "apply("+p(int64(5))+") => error", "an error inside the callback is an error of the call")
	add("apply(func(x) { return nosuch }, 5)", "apply("+p(int64(5))+") => error", "an error inside the callback is an error of the call")
	add("apply2(func(a, b) { return a + 1, b + \"!\" })", "apply2("+p(int64(6))+", "+p("s!")+") => "+p(fmt.Sprint(int64(6), "s!")), "callback with two parameters and two results")
	add("apply2(func(a, b) { return a })", " => error", "callback returning too few results")
	add("applyerr(func(s) { return 12, nil })", "applyerr("+p(int64(12))+", "+p(nil)+") => "+p("12 <nil>"), "nil among several callback results is the zero value of the declared type (error)")
	add("applyerr(func(s) { return nil, nil })", "applyerr("+p(int64(0))+", "+p(nil)+") => "+p("0 <nil>"), "nil callback results are zero values")
	add("applyerr(func(s) { return len(s), anerr })", "applyerr("+p(int64(2))+", "+p(errors.New("E1"))+") => "+p("2 E1"), "an error value returned by a callback arrives as that error")
	add("applyany(func() { return nil, nil, nil, nil, nil })", "applyany("+p(nil)+", "+p(false)+", "+p(true)+", "+p("")+", "+p([]int64(nil))+") => "+p("<nil>|false|true||true|0"),
		"nil in every position of a multi-result callback: zero value of each declared type")
	add("applyany(func() { return 1, true, nil, \"s\", [1, 2] })", "applyany("+p(int64(1))+", "+p(true)+", "+p(true)+", "+p("s")+", "+p([]int64{1, 2})+") => "+p("1|true|true|s|false|2"),
		"several callback results, one of them nil")
	add("applyany(func() { return [nil], false, pobj, \"\", [] })", "applyany("+p([]interface{}{nil})+", "+p(false)+", "+p(false)+", "+p("")+", "+p([]int64{})+") => "+p("[<nil>]|false|false||false|0"),
		"several callback results with a pointer and an empty list")
	add("cbnil(func(e) { if e == nil { return \"nil\" }; return \"err\" })", "cbnil() => "+p("nil|err"), "a callback called by Go with a nil interface argument receives nil")
	add("cbany(func(v) { return v })", "cbany() => "+p("<nil>|1|s"), "an identity callback hands back what Go passed, nil included")
	add("cbany(func(v) { return [v] })", "cbany() => "+p("[<nil>]|[1]|[s]"), "a callback can store the nil it was called with")
	add("cbany(func(v) { return v == nil })", "cbany() => "+p("true|false|false"), "a callback compares its argument with nil")
	add("cbmix(func(n, v, l, e) { return [n, v == nil, len(l), e == nil] })", "cbmix() => "+p("[1 true 0 true]|[2 false 1 false]"), "nil and non-nil arguments of several kinds arrive as Go passed them")
	add("applyv(func(xs) { return len(xs) })", "applyv() => "+p(int64(3)), "callback of a variadic func type receives the variadic slice")
	// variadic script functions as callbacks: invoked with the arguments Go passes
	add("applyii(func(xs...) { return xs[0] * 10 + xs[1] })", "applyii() => "+p(int64(34)), "a variadic script function as a callback of a fixed func type receives the arguments Go passes")
	add("applyii(func(xs...) { return len(xs) })", "applyii() => "+p(int64(2)), "... all of them")
	add("applyii(func(a, xs...) { return a * 10 + xs[0] })", "applyii() => "+p(int64(34)), "... a fixed parameter first, the rest in the variadic tail")
	add("applyii(func(a, b, xs...) { return a * 10 + b + len(xs) })", "applyii() => "+p(int64(34)), "... an empty variadic tail")
	add("applyii(func(a, b) { return a * 10 + b })", "applyii() => "+p(int64(34)), "a fixed script function as a callback of a fixed func type")
	add("applyv(func(xs...) { return xs[0] * 100 + xs[1] * 10 + xs[2] })", "applyv() => "+p(int64(123)), "a variadic script function as a callback of a variadic func type receives the variadic arguments one by one")
	add("applyv(func(xs...) { return len(xs) })", "applyv() => "+p(int64(3)), "... all of them")
	add("apply1v(func(s, xs...) { return len(s) * 100 + xs[0] * 10 + xs[1] })", "apply1v() => "+p(int64(134)), "... after a fixed parameter")
	add("apply1v(func(xs...) { return len(xs) })", "apply1v() => "+p(int64(3)), "... the fixed argument among them")
	add("apply1v(func(s, xs) { return xs[0] * 10 + xs[1] })", "apply1v() => "+p(int64(34)), "a fixed script function receives the variadic arguments as the slice Go holds")
	add("applysl(func(xs...) { return xs[1][0] * 10 + xs[1][1] })", "applysl() => "+p(int64(56)), "a slice argument stays one argument")
	add("r = nil; applyii(func(xs...) { r = xs; return 0 }); r", "applyii() => "+p([]interface{}{int64(3), int64(4)}), "the arguments arrive with their Go types")
	add("t = 0; each([1, 2, 3], func(x) { t += x }); t", "each("+p([]int64{1, 2, 3})+") => "+p(int64(6)), "callback invoked with the arguments Go passes")
	add("apply(1, 5)", " => error", "a non-function where a func is wanted")
	add("each([1, 2, 3], func(x) { throw \"bad\" })", "each("+p([]int64{1, 2, 3})+") => error", "an error inside a result-less callback is an error of the call")
	add("each([1], func(x) { return nosuch })", "each("+p([]int64{1})+") => error", "an error inside a result-less callback is an error of the call")
	add("r = \"none\"; try { each([1, 2], func(x) { throw \"bad\" }) } catch e { r = \"caught\" }; r", "each("+p([]int64{1, 2})+") => "+p("caught"), "the error of a result-less callback can be caught around the call")
	add("n = 0; each([1, 2, 3], func(x) { n += 1; if x == 2 { throw \"stop\" } }); n", "each("+p([]int64{1, 2, 3})+") => error", "an error inside the callback ends the enclosing call")
	add("id_sl_int64([])", "id_sl_int64("+p([]int64{})+") => "+p([]int64{}), "an empty list arrives as an empty, non-nil slice")
	add("id_sl_sl_int64([[1], []])", "id_sl_sl_int64("+p([][]int64{{1}, {}})+") => "+p([][]int64{{1}, {}}), "empty inner lists arrive as empty, non-nil slices")
	add("id_map_string_int64({})", "id_map_string_int64("+p(map[string]int64{})+") => "+p(map[string]int64{}), "an empty map arrives as an empty, non-nil map")
	return out
}

type c11Shape struct {
	Src     string `json:"src"`
	N       int    `json:"n"`
	Var     bool   `json:"variadic"`
	Pre     []int  `json:"pre"`
	Spread  []int  `json:"spread"` // nil when the call is plain
	IsSpread bool  `json:"is_spread"`
	Log     string `json:"log"`
	Result  string `json:"result"`
	ModelIn string `json:"model_in"`
}

// every call shape: functions with 0-3 interface{} parameters, fixed or with a variadic tail, called
// with 0-4 ordinary arguments and no / an empty / a 1-3 element spread list
func c11Shapes() []c11Shape {
	var out []c11Shape
	for n := 0; n <= 3; n++ {
		for _, variadic := range []bool{false, true} {
			if variadic && n == 0 {
				continue
			}
			name := fmt.Sprintf("fix%d", n)
			if variadic {
				name = fmt.Sprintf("vr%d", n)
			}
			for np := 0; np <= 4; np++ {
				for ns := -1; ns <= 3; ns++ {
					var pre, sp []int
					var parts []string
					next := 1
					for i := 0; i < np; i++ {
						pre = append(pre, next)
						parts = append(parts, fmt.Sprint(next))
						next++
					}
					if ns >= 0 {
						sp = []int{}
						var el []string
						for i := 0; i < ns; i++ {
							sp = append(sp, next)
							el = append(el, fmt.Sprint(next))
							next++
						}
						parts = append(parts, "["+strings.Join(el, ", ")+"]...")
					}
					src := name + "(" + strings.Join(parts, ", ") + ")"
					h := &c11Host{}
					e := c11Env(h)
					for k := 0; k <= 3; k++ {
						k := k
						in := make([]reflect.Type, k)
						for i := range in {
							in[i] = c11Iface
						}
						e.DefineValue(fmt.Sprintf("fix%d", k), reflect.MakeFunc(reflect.FuncOf(in, []reflect.Type{c11Iface}, false), func(a []reflect.Value) []reflect.Value {
							var xs []string
							for _, v := range a {
								xs = append(xs, fmt.Sprint(v.Interface()))
							}
							h.log = append(h.log, "F("+strings.Join(xs, " ")+")()")
							return []reflect.Value{reflect.Zero(c11Iface)}
						}))
						if k >= 1 {
							inv := make([]reflect.Type, k)
							for i := range inv {
								inv[i] = c11Iface
							}
							inv[k-1] = reflect.TypeOf([]interface{}{})
							e.DefineValue(fmt.Sprintf("vr%d", k), reflect.MakeFunc(reflect.FuncOf(inv, []reflect.Type{c11Iface}, true), func(a []reflect.Value) []reflect.Value {
								var xs, ts []string
								for _, v := range a[:len(a)-1] {
									xs = append(xs, fmt.Sprint(v.Interface()))
								}
								tail := a[len(a)-1]
								for i := 0; i < tail.Len(); i++ {
									ts = append(ts, fmt.Sprint(tail.Index(i).Interface()))
								}
								h.log = append(h.log, "F("+strings.Join(xs, " ")+")("+strings.Join(ts, " ")+")")
								return []reflect.Value{reflect.Zero(c11Iface)}
							}))
						}
					}
					res := "ok"
					func() {
						defer func() {
							if p := recover(); p != nil {
								res = "PANIC " + fmt.Sprint(p)
							}
						}()
						if _, err := vm.Execute(e, nil, src); err != nil {
							res = "error"
						}
					}()
					var ps, ss []string
					for _, x := range pre {
						ps = append(ps, fmt.Sprint(x))
					}
					spx := "()"
					if sp != nil {
						for _, x := range sp {
							ss = append(ss, fmt.Sprint(x))
						}
						spx = "((" + strings.Join(ss, " ") + "))"
					}
					out = append(out, c11Shape{Src: src, N: n, Var: variadic, Pre: pre, Spread: sp, IsSpread: sp != nil, Log: strings.Join(h.log, ";"), Result: res,
						ModelIn: fmt.Sprintf("(%d %v (%s) %s)", n, variadic, strings.Join(ps, " "), spx)})
				}
			}
		}
	}
	return out
}

func c11Main(seed uint64, n int, outDir string) error {
	cases := c11Cases(NewRand(seed, "c11"))
	sx, err := os.Create(filepath.Join(outDir, "cases.sx"))
	if err != nil {
		return err
	}
	defer sx.Close()
	for _, c := range cases {
		if c.ModelIn != "" {
			fmt.Fprintln(sx, "c11 "+c.ModelIn)
		}
	}
	shapes := c11Shapes()
	sx2, err := os.Create(filepath.Join(outDir, "shapes.sx"))
	if err != nil {
		return err
	}
	defer sx2.Close()
	for _, sh := range shapes {
		fmt.Fprintln(sx2, "c11a "+sh.ModelIn)
	}
	mb, _ := json.Marshal(map[string]interface{}{"cases": cases, "shapes": shapes})
	return os.WriteFile(filepath.Join(outDir, "meta.json"), mb, 0o644)
}
