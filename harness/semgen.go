package main

// Generator of terminating anko programs of fragment F1 for the semantic
// correspondences (C04 scope, C07 evaluation order, C08 control flow, C09
// errors and defers): nested blocks of every statement kind with assignments,
// var declarations and probe()d reads of a small pool of names at every level
// and on every exit path.

import (
	"fmt"
	"strings"
)

type semGen struct {
	r      *Rand
	kinds  map[string]int
	nfun   int
	guard  int
	emphasis string
}

func newSemGen(r *Rand, emphasis string) *semGen {
	return &semGen{r: r, kinds: map[string]int{}, emphasis: emphasis}
}

var semNames = []string{"a", "b", "c", "x"}

func (g *semGen) name() string { return semNames[g.r.Intn(len(semNames))] }
func (g *semGen) note(k string) { g.kinds[k]++ }

type semCtx struct {
	depth  int
	inLoop bool
	inFunc bool
	funcs  []string // callable script functions with their arity encoded as name/arity
}

func (g *semGen) atom() string {
	switch g.r.Intn(14) {
	case 0, 1, 2, 3:
		return g.name()
	case 4, 5, 6:
		return fmt.Sprint(g.r.Intn(6))
	case 7:
		return []string{"true", "false", "nil"}[g.r.Intn(3)]
	case 8:
		return []string{`""`, `"s"`, `"0"`, `"a1"`}[g.r.Intn(4)]
	case 9:
		return []string{"1.5", "0.0", "2.0"}[g.r.Intn(3)]
	case 10:
		return "[" + g.name() + ", " + fmt.Sprint(g.r.Intn(4)) + "]"
	case 11:
		return "[]"
	case 12:
		return `{"k": ` + g.name() + `}`
	}
	return fmt.Sprint(g.r.Intn(3))
}

func (g *semGen) expr(c semCtx, d int) string {
	if d <= 0 {
		return g.atom()
	}
	switch g.r.Intn(22) {
	case 0, 1, 2, 3:
		return g.atom()
	case 4, 5:
		g.note("probe")
		return "probe(" + g.expr(c, d-1) + ")"
	case 6, 7:
		op := []string{"+", "-", "*", "==", "!=", "<", ">=", "&&", "||", "%", "/"}[g.r.Intn(11)]
		g.note("binop")
		return "(" + g.expr(c, d-1) + " " + op + " " + g.expr(c, d-1) + ")"
	case 8:
		g.note("ternary")
		return "(" + g.expr(c, d-1) + " ? " + g.expr(c, d-1) + " : " + g.expr(c, d-1) + ")"
	case 9:
		g.note("coalesce")
		return "(" + g.expr(c, d-1) + " ?? " + g.expr(c, d-1) + ")"
	case 10:
		g.note("index")
		return g.name() + "[" + g.expr(c, d-1) + "]"
	case 11:
		g.note("len")
		return "len(" + g.name() + ")"
	case 12, 13:
		if len(c.funcs) > 0 {
			f := c.funcs[g.r.Intn(len(c.funcs))]
			var nm string
			var ar int
			fmt.Sscanf(strings.Replace(f, "/", " ", 1), "%s %d", &nm, &ar)
			if g.r.Chance(1, 8) {
				ar += g.r.Intn(3) - 1 // wrong argument count
				if ar < 0 {
					ar = 0
				}
			}
			var args []string
			for i := 0; i < ar; i++ {
				args = append(args, g.expr(c, d-1))
			}
			g.note("call")
			if g.r.Bool() {
				// what a call returns (nil for none, the value, or the list of several) is observed, not dropped
				return "probe(" + nm + "(" + strings.Join(args, ", ") + "))"
			}
			return nm + "(" + strings.Join(args, ", ") + ")"
		}
		return g.atom()
	case 14:
		g.note("funclit-call")
		return "func(" + g.name() + ") { " + g.stmts(semCtx{depth: c.depth + 1, inFunc: true, funcs: c.funcs}, 1) + " }(" + g.expr(c, d-1) + ")"
	case 15:
		g.note("unary")
		return []string{"-", "!"}[g.r.Intn(2)] + g.atom()
	case 16:
		g.note("in")
		return "(" + g.atom() + " in [" + g.atom() + ", " + g.atom() + "])"
	case 17:
		g.note("hostcall")
		switch g.r.Intn(4) {
		case 0:
			return "probe2(" + g.expr(c, d-1) + ", " + g.expr(c, d-1) + ")"
		case 1:
			return "hvar(" + g.expr(c, d-1) + ", " + g.atom() + ")"
		case 2:
			return "hpair(" + g.atom() + ")"
		}
		return "hzero()"
	case 18:
		g.note("member")
		return g.name() + ".k"
	case 19:
		g.note("slice")
		return g.name() + "[" + fmt.Sprint(g.r.Intn(2)) + ":" + fmt.Sprint(1+g.r.Intn(2)) + "]"
	}
	return g.atom()
}

func (g *semGen) block(c semCtx) string {
	return "{ " + g.stmts(semCtx{depth: c.depth + 1, inLoop: c.inLoop, inFunc: c.inFunc, funcs: c.funcs}, 1+g.r.Intn(3)) + " }"
}

func (g *semGen) stmts(c semCtx, n int) string {
	var p []string
	for i := 0; i < n; i++ {
		p = append(p, g.stmt(&c))
	}
	return strings.Join(p, "; ")
}

func (g *semGen) stmt(c *semCtx) string {
	d := 2
	if c.depth >= 4 {
		// leaf statements only
		switch g.r.Intn(4) {
		case 0:
			return g.name() + " = " + g.expr(*c, 1)
		case 1:
			return "var " + g.name() + " = " + g.expr(*c, 1)
		default:
			return "probe(" + g.name() + ")"
		}
	}
	k := g.pickKind()
	switch {
	case k < 6:
		g.note("assign")
		return g.name() + " = " + g.expr(*c, d)
	case k < 9:
		g.note("var")
		switch g.r.Intn(6) {
		case 0: // several names, one list value: every name is bound here
			return "var " + g.name() + ", " + g.name() + " = [" + g.expr(*c, 1) + ", " + g.atom() + "]"
		case 1: // several names, several values
			return "var " + g.name() + ", " + g.name() + " = " + g.expr(*c, 1) + ", " + g.atom()
		}
		return "var " + g.name() + " = " + g.expr(*c, d)
	case k < 13:
		g.note("read")
		return "probe(" + g.name() + ")"
	case k < 15:
		g.note("exprstmt")
		return g.expr(*c, d)
	case k < 18:
		g.note("if")
		s := "if " + g.cond(*c) + " " + g.block(*c)
		for g.r.Chance(1, 3) {
			s += " else if " + g.cond(*c) + " " + g.block(*c)
		}
		if g.r.Bool() {
			s += " else " + g.block(*c)
		}
		return s
	case k < 20:
		g.note("cfor")
		v := g.name()
		inner := *c
		inner.inLoop = true
		post := v + "++"
		if g.r.Chance(1, 4) {
			post = v + " = " + v + " + 1"
		}
		return fmt.Sprintf("for %s = 0; %s < %d; %s %s", v, v, 1+g.r.Intn(3), post, g.guarded(inner, v))
	case k < 22:
		g.note("forin")
		inner := *c
		inner.inLoop = true
		coll := "[" + g.atom() + ", " + g.atom() + ", " + g.atom() + "]"
		if g.r.Chance(1, 4) {
			coll = g.name()
		} else if g.r.Chance(1, 5) {
			coll = `{"k": ` + g.atom() + `}`
		}
		return "for " + g.name() + " in " + coll + " " + g.block(inner)
	case k < 24:
		g.note("loop")
		inner := *c
		inner.inLoop = true
		g.guard++
		gv := fmt.Sprintf("g%d", g.guard)
		cond := ""
		if g.r.Bool() {
			cond = g.cond(*c) + " "
		}
		body := g.stmts(semCtx{depth: c.depth + 1, inLoop: true, inFunc: c.inFunc, funcs: c.funcs}, 1+g.r.Intn(2))
		return fmt.Sprintf("%s = 0; for %s{ %s = %s + 1; if %s > %d { break }; %s }", gv, cond, gv, gv, gv, 1+g.r.Intn(3), body)
	case k < 26:
		g.note("switch")
		s := "switch " + g.cond(*c) + " {"
		n := 1 + g.r.Intn(2)
		for i := 0; i < n; i++ {
			s += "\ncase " + g.cond(*c)
			if g.r.Chance(1, 3) {
				s += ", " + g.atom()
			}
			if g.emphasis == "c08" && g.r.Chance(1, 6) {
				s += ":" // a case with an empty body: matching it runs nothing (not the default)
				continue
			}
			s += ": " + g.stmts(semCtx{depth: c.depth + 1, inLoop: c.inLoop, inFunc: c.inFunc, funcs: c.funcs}, 1+g.r.Intn(2))
		}
		if g.r.Bool() {
			s += "\ndefault: " + g.stmts(semCtx{depth: c.depth + 1, inLoop: c.inLoop, inFunc: c.inFunc, funcs: c.funcs}, 1)
		}
		return s + "\n}"
	case k < 29:
		g.note("try")
		s := "try " + g.block(*c) + " catch "
		if g.r.Bool() {
			s += g.name() + " "
		}
		s += g.block(*c)
		if g.r.Bool() {
			s += " finally " + g.block(*c)
		}
		return s
	case k < 31:
		g.note("throw")
		return "throw " + g.atom()
	case k < 33:
		g.note("funcdef")
		g.nfun++
		nm := fmt.Sprintf("f%d", g.nfun)
		ar := g.r.Intn(4)
		if g.r.Chance(1, 6) {
			ar = 5 + g.r.Intn(2) // beyond the direct-call fast path
		}
		var ps []string
		for i := 0; i < ar; i++ {
			ps = append(ps, []string{"a", "b", "c", "x", "p", "q"}[i%6])
		}
		body := g.stmts(semCtx{depth: c.depth + 1, inFunc: true, funcs: c.funcs}, 1+g.r.Intn(3))
		c.funcs = append(c.funcs, fmt.Sprintf("%s/%d", nm, ar))
		return "func " + nm + "(" + strings.Join(ps, ", ") + ") { " + body + " }"
	case k < 34:
		g.note("closure")
		g.nfun++
		nm := fmt.Sprintf("f%d", g.nfun)
		c.funcs = append(c.funcs, nm+"/0")
		v := g.name()
		return nm + " = func() { " + v + " = " + v + " + 1; probe(" + v + "); return " + v + " }"
	case k < 35 && c.inLoop:
		g.note("break")
		return "break"
	case k < 36 && c.inLoop:
		g.note("continue")
		return "continue"
	case k < 38 && c.inFunc:
		g.note("return")
		switch g.r.Intn(3) {
		case 0:
			return "return"
		case 1:
			return "return " + g.expr(*c, 1)
		}
		return "return " + g.atom() + ", " + g.atom()
	case k < 39:
		g.note("module")
		return "module m { " + g.stmts(semCtx{depth: c.depth + 1, funcs: c.funcs}, 1+g.r.Intn(2)) + " }; probe(m." + g.name() + ")"
	case k < 40:
		g.note("defer")
		if g.r.Bool() {
			return "defer probe(" + g.expr(*c, 1) + ")"
		}
		return "defer func() { probe(" + g.name() + ") }()"
	}
	return "probe(" + g.name() + ")"
}

// statement kinds as ranges of k in stmt(): assign var read exprstmt if cfor forin loop switch try
// throw funcdef closure break continue return module defer
var semKindBounds = []int{6, 9, 13, 15, 18, 20, 22, 24, 26, 29, 31, 33, 34, 35, 36, 38, 39, 40}

var semEmphasis = map[string][]int{
	//        as va rd ex if cf fi lo sw tr th fd cl br co re mo de
	"sem": {6, 3, 4, 2, 3, 2, 2, 2, 2, 3, 2, 2, 1, 1, 1, 2, 1, 1},
	"c04": {7, 6, 7, 1, 3, 2, 3, 2, 3, 3, 2, 3, 3, 2, 2, 3, 3, 1},
	"c08": {4, 2, 4, 1, 5, 4, 4, 4, 5, 1, 1, 2, 1, 4, 4, 4, 0, 0},
	"c09": {3, 2, 3, 2, 2, 1, 1, 1, 1, 7, 6, 3, 1, 1, 1, 4, 0, 7},
	"c07": {3, 2, 2, 8, 1, 1, 1, 0, 1, 2, 1, 4, 1, 0, 0, 3, 0, 3},
}

func (g *semGen) pickKind() int {
	w, ok := semEmphasis[g.emphasis]
	if !ok {
		w = semEmphasis["sem"]
	}
	i := g.r.Pick(w)
	lo := 0
	if i > 0 {
		lo = semKindBounds[i-1]
	}
	return lo + g.r.Intn(semKindBounds[i]-lo)
}

// truthiness classes for conditions (C08)
var truthAtoms = []string{"nil", "true", "false", "0", "1", "0.0", "1.5", `""`, `"0"`, `"false"`, `"a"`, "[]", "[0]", "{}", `{"k": 1}`}

func (g *semGen) cond(c semCtx) string {
	if g.emphasis == "c08" && g.r.Chance(2, 3) {
		a := truthAtoms[g.r.Intn(len(truthAtoms))]
		if g.r.Chance(1, 3) {
			return "probe(" + a + ")"
		}
		return a
	}
	return g.expr(c, 1)
}

// a loop body that terminates even if the loop variable is reassigned inside
func (g *semGen) guarded(c semCtx, v string) string {
	g.guard++
	gv := fmt.Sprintf("g%d", g.guard)
	body := g.stmts(semCtx{depth: c.depth + 1, inLoop: true, inFunc: c.inFunc, funcs: c.funcs}, 1+g.r.Intn(2))
	return fmt.Sprintf("{ %s = (%s ?? 0) + 1; if %s > 4 { break }; %s }", gv, gv, gv, body)
}

func (g *semGen) program() string {
	c := semCtx{}
	init := "a = 1; b = 2"
	return init + "; " + g.stmts(c, 2+g.r.Intn(4))
}
