package main

// C18: the library side of the command-line comparison.  Runs one source with the script
// arguments in an environment prepared as anko.go prepares it (args, core.Import, packages
// linked in), lets the script print to this process's standard output, and writes the verdict
// of vm.Execute to the status file.

import (
	"encoding/json"
	"os"

	"github.com/mattn/anko/core"
	"github.com/mattn/anko/env"
	_ "github.com/mattn/anko/packages"
	"github.com/mattn/anko/parser"
	"github.com/mattn/anko/vm"
)

func c18Lib(srcFile, statusFile string, args []string) error {
	b, err := os.ReadFile(srcFile)
	if err != nil { // the text the tool is expected to show for an unreadable file
		sb, _ := json.Marshal(map[string]interface{}{"ok": false, "msg": err.Error(), "class": "unreadable"})
		return os.WriteFile(statusFile, sb, 0o644)
	}
	if args == nil {
		args = []string{}
	}
	e := env.NewEnv()
	e.Define("args", args)
	core.Import(e)
	_, xerr := vm.Execute(e, nil, string(b))
	st := map[string]interface{}{"ok": xerr == nil, "msg": "", "class": "ok"}
	if xerr != nil {
		st["msg"] = xerr.Error()
		st["class"] = "run"
		if _, ok := xerr.(*parser.Error); ok {
			st["class"] = "parse"
		}
	}
	sb, _ := json.Marshal(st)
	return os.WriteFile(statusFile, sb, 0o644)
}
