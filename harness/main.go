package main

import (
	"flag"
	"fmt"
	"os"
)

func main() {
	if len(os.Args) < 2 {
		fmt.Fprintln(os.Stderr, "usage: harness <property> [flags]")
		os.Exit(2)
	}
	id := os.Args[1]
	fs := flag.NewFlagSet(id, flag.ExitOnError)
	seed := fs.Uint64("seed", 1, "PRNG seed")
	n := fs.Int("n", 100, "number of cases")
	out := fs.String("out", ".", "output directory")
	replay := fs.String("replay", "", "replay file")
	repo := fs.String("repo", "/repo", "path of the anko working tree")
	gen := fs.String("gen", "sem", "generator")
	srcfile := fs.String("srcfile", "", "JSON list of sources to run (directed expectations)")
	fs.Parse(os.Args[2:])
	var err error
	switch id {
	case "c12":
		err = c12Main(*seed, *n, *out, *replay)
	case "interp":
		if os.Getenv("VERIF_CHILD") == "" {
			err = supervise(*out)
			break
		}
		superInit()
		if *srcfile != "" {
			err = interpSrcFile(*srcfile, *out)
		} else {
			err = interpMain(*seed, *n, *out, *gen)
		}
	case "c01":
		self, _ := os.Executable()
		err = c01Main(*seed, *n, *out, self)
	case "c01child":
		err = c01Child(*replay)
	case "c03":
		err = c03Main(*seed, *n, *out, *repo, *gen, *replay)
	case "c15":
		err = c15Main(*seed, *n, *out, *repo)
	case "c15child":
		err = c15Child(*replay, *out, *n)
	case "c10":
		err = c10Main(*seed, *n, *out)
	case "c02stress":
		err = c02Stress(*n, *out)
	case "c16":
		err = c16Main(*seed, *n, *out)
	case "c11":
		err = c11Main(*seed, *n, *out)
	case "c13race":
		err = c13Race(*seed, *n)
	case "c13":
		err = c13Main(*seed, *n, *out, *repo)
	case "c14":
		err = c14Main(*seed, *n, *out, *repo)
	case "c18lib":
		err = c18Lib(*srcfile, *out, fs.Args())
	case "c19child":
		err = c19Child(*replay, *out, *n)
	case "c19":
		err = c19Main(*seed, *n, *out, *repo)
	case "c17":
		err = c17Main(*seed, *n, *out, *repo)
	default:
		err = fmt.Errorf("unknown property %s", id)
	}
	if err != nil {
		fmt.Fprintln(os.Stderr, "harness:", err)
		os.Exit(2)
	}
}
