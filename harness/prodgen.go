package main

// Directed, completely enumerated program families:
//  - c04Product: statement kind x nested statement kind x exit path, each with a
//    shadowing declaration inside and reads of the shadowed names after the exit;
//  - c07Trees: expression trees whose leaves are probe calls, over every call path.

import (
	"fmt"
	"strings"
)

// a statement template with one hole %s for its inner body
type stmtKind struct {
	name string
	tmpl string
	loop bool // the hole is inside a loop of this statement
}

var c04Kinds = []stmtKind{
	{"if-then", "if true { var a = 10; %s; probe(a) }", false},
	{"if-else", "if false { probe(0) } else { var a = 11; %s; probe(a) }", false},
	{"elif-cond", "if false { probe(0) } else if func() { var a = 12; %s; return true }() { probe(a) }", false},
	{"elif-then", "if false { probe(0) } else if true { var a = 13; %s; probe(a) } else { probe(1) }", false},
	{"loop-cond", "nL1 = 0; for nL1 < 2 { nL1++; var a = 14; %s; probe(a) }", true},
	{"loop-inf", "nL2 = 0; for { nL2++; if nL2 > 2 { break }; var a = 15; %s; probe(a) }", true},
	{"cfor", "for iL = 0; iL < 2; iL++ { var a = 16; %s; probe(a) }", true},
	{"forin-slice", "for a in [17, 18] { var b = 19; %s; probe(a) }", true},
	{"forin-map", "for k, a in {\"k\": 20} { var b = 21; %s; probe(a) }", true},
	{"switch-case", "switch 1 {\ncase 1: var a = 22; %s; probe(a)\ndefault: probe(0)\n}", false},
	{"switch-default", "switch 2 {\ncase 1: probe(0)\ndefault: var a = 23; %s; probe(a)\n}", false},
	{"switch-caseexpr", "switch 1 {\ncase func() { var a = 24; %s; return 1 }(): probe(a)\n}", false},
	{"try-body", "try { var a = 25; %s; probe(a) } catch e { probe(a) } finally { probe(b) }", false},
	{"try-catch", "try { throw 1 } catch a { var b = 26; %s; probe(a) } finally { probe(b) }", false},
	{"try-finally", "try { probe(0) } catch e { probe(1) } finally { var a = 27; %s; probe(a) }", false},
	{"module", "module m { var a = 28; %s; probe(a) }", false},
	{"func-call", "func fk(a) { var b = 29; %s; probe(a) }; fk(30)", false},
	{"anon-call", "func(a) { var b = 31; %s; probe(a) }(32)", false},
	{"block-fn5", "func f5(a, b, c, x, p) { %s; probe(a) }; f5(33, 34, 35, 36, 37)", false},
}

type exitPath struct {
	name, code string
	needLoop   bool
}

var c04Exits = []exitPath{
	{"fallthrough", "b = b + 1", false},
	{"break", "break", true},
	{"continue", "continue", true},
	{"return", "return a", false},
	{"throw", "throw \"t\"", false},
	{"runtime-error", "zz = 1 % 0", false},
	{"undefined", "probe(undefined_name)", false},
	{"call-error", "probe2(1)", false},
}

func c04Product() []string {
	var out []string
	for _, outer := range c04Kinds {
		for _, inner := range c04Kinds {
			for _, ex := range c04Exits {
				body := fmt.Sprintf(strings.ReplaceAll(inner.tmpl, "L", "i"), ex.code)
				if ex.needLoop && !inner.loop && !outer.loop {
					// give break/continue a loop to act on, between outer and inner
					body = "for j = 0; j < 2; j++ { " + body + "; probe(a) }"
				}
				prog := "a = 1; b = 2\nfunc outer() {\n" + fmt.Sprintf(strings.ReplaceAll(outer.tmpl, "L", "o"), body) + "\nprobe(a); probe(b)\n}\n" +
					"try { probe(outer()) } catch e { probe(9) }\nprobe(a); probe(b)"
				out = append(out, prog)
			}
		}
	}
	return out
}

// ---- C07: probe-leaf expression trees over every call path ----
type c07Gen struct {
	r    *Rand
	next int
}

func (g *c07Gen) leaf() string {
	g.next++
	switch g.r.Intn(12) {
	case 0:
		return fmt.Sprintf("(probe(%d) %% 0)", g.next) // raises after being evaluated
	case 1:
		return fmt.Sprintf("probe(%d)[5]", g.next) // index of a number: raises
	case 2:
		return fmt.Sprintf("[probe(%d), %d]", g.next, g.next)
	}
	return fmt.Sprintf("probe(%d)", g.next)
}

func (g *c07Gen) args(n, d int) string {
	var p []string
	for i := 0; i < n; i++ {
		p = append(p, g.tree(d))
	}
	return strings.Join(p, ", ")
}

func (g *c07Gen) tree(d int) string {
	if d <= 0 {
		return g.leaf()
	}
	switch g.r.Intn(24) {
	case 0, 1:
		n := g.r.Intn(7) // script function of arity n called with n arguments
		return fmt.Sprintf("s%d(%s)", n, g.args(n, d-1))
	case 2:
		n := g.r.Intn(7)
		m := n + g.r.Intn(3) - 1 // wrong count
		if m < 0 {
			m = 0
		}
		return fmt.Sprintf("s%d(%s)", n, g.args(m, d-1))
	case 3:
		return fmt.Sprintf("sv(%s)", g.args(g.r.Intn(5), d-1)) // variadic script function
	case 4:
		return fmt.Sprintf("sv1(%s)", g.args(g.r.Intn(4), d-1)) // one fixed + variadic
	case 5:
		return fmt.Sprintf("s%d(%s...)", 1+g.r.Intn(4), g.args(1+g.r.Intn(2), d-1)) // spread into fixed
	case 6:
		return fmt.Sprintf("sv1(%s...)", g.args(1+g.r.Intn(3), d-1)) // spread into variadic
	case 7:
		return fmt.Sprintf("probe2(%s)", g.args(2, d-1))
	case 8:
		return fmt.Sprintf("hfix3(%s)", g.args(2+g.r.Intn(3), d-1)) // sometimes wrong count
	case 9:
		return fmt.Sprintf("hvar(%s)", g.args(g.r.Intn(4), d-1))
	case 10:
		return fmt.Sprintf("hvar(%s...)", g.args(1+g.r.Intn(2), d-1))
	case 11:
		return "[" + g.args(1+g.r.Intn(3), d-1) + "]"
	case 12:
		return "{" + g.tree(d-1) + ": " + g.tree(d-1) + ", " + g.tree(d-1) + ": " + g.tree(d-1) + "}"
	case 13:
		op := []string{"+", "-", "*", "==", "<", "%", "|", "&"}[g.r.Intn(8)]
		return "(" + g.tree(d-1) + " " + op + " " + g.tree(d-1) + ")"
	case 14:
		return "(" + g.tree(d-1) + " && " + g.tree(d-1) + ")"
	case 15:
		return "(" + g.tree(d-1) + " || " + g.tree(d-1) + ")"
	case 16:
		return "(" + g.tree(d-1) + " ? " + g.tree(d-1) + " : " + g.tree(d-1) + ")"
	case 17:
		return "(" + g.tree(d-1) + " ?? " + g.tree(d-1) + ")"
	case 18:
		return "[1, 2, 3][" + g.tree(d-1) + "]"
	case 19:
		return "[1, 2, 3][" + g.tree(d-1) + ":" + g.tree(d-1) + "]"
	case 20:
		return "func() { return " + g.args(1+g.r.Intn(3), d-1) + " }()"
	case 21:
		return "(" + g.tree(d-1) + " in [" + g.tree(d-1) + ", " + g.tree(d-1) + "])"
	case 22:
		return "len([" + g.args(1+g.r.Intn(2), d-1) + "])"
	}
	return g.leaf()
}

const c07Prelude = `func s0() { probe("s0"); return 0 }
func s1(a) { probe("s1"); return a }
func s2(a, b) { probe("s2"); return b }
func s3(a, b, c) { probe("s3"); return c }
func s4(a, b, c, d) { probe("s4"); return d }
func s5(a, b, c, d, e) { probe("s5"); return e }
func s6(a, b, c, d, e, f) { probe("s6"); return f }
func sv(xs...) { probe("sv"); return len(xs) }
func sv1(a, xs...) { probe("sv1"); return xs }
`

func (g *c07Gen) program() string {
	g.next = 0
	var body string
	switch g.r.Intn(10) {
	case 0:
		body = "x, y = " + g.args(2+g.r.Intn(2), 2) + "; probe(x)"
	case 1:
		body = "func r() { return " + g.args(2, 2) + " }; probe(r())"
	case 2:
		body = "func d() { defer s2(" + g.args(2, 1) + "); defer probe(" + g.tree(1) + "); probe(\"body\") }; d()"
	case 3:
		body = "try { " + g.tree(3) + " } catch e { probe(\"caught\") }"
	case 4:
		body = "m = {}; m[" + g.tree(1) + "] = " + g.tree(2) + "; probe(m)"
	case 5:
		body = "q = [1, 2]; q[" + g.tree(1) + "] = " + g.tree(2) + "; probe(q)"
	case 6:
		// the two-target map read: item and key once each, whether the key is present, bound to nil or missing
		g.next += 2
		key := []string{`"k"`, `"n"`, `"zz"`}[g.r.Intn(3)]
		var kx string
		switch g.r.Intn(4) {
		case 0:
			kx = "probe(" + key + ")"
		case 1:
			kx = "s1(probe(" + key + "))"
		case 2:
			kx = fmt.Sprintf("(probe(%d) ? probe(%s) : probe(\"other\"))", g.r.Intn(2), key)
		default:
			kx = "[probe(" + key + "), probe(0)][0]"
		}
		body = "v, ok = probe({\"k\": 1, \"n\": nil})[" + kx + "]; probe(v); probe(ok)"
	case 7:
		switch g.r.Intn(3) {
		case 0:
			body = "probe(probe({\"k\": " + g.tree(1) + "}).k)"
		case 1:
			body = "probe(probe([1, 2, 3, 4])[" + g.tree(1) + ":" + g.tree(1) + ":" + g.tree(1) + "])"
		default:
			body = "m = {\"k\": 1}; delete(probe(m), " + g.tree(1) + "); probe(m)"
		}
	default:
		body = "probe(" + g.tree(3) + ")"
	}
	return c07Prelude + body
}

// ---- C09: try-body exit x catch action x finally x context, completely enumerated ----
func c09Product() []string {
	bodies := []string{"probe(1)", "throw \"t\"", "zz = 1 % 0", "return 7", "break", "continue", "probe(undefined_name)",
		"thrower()", "try { throw 1 } catch q { throw q }", "defer probe(\"d\"); throw 2"}
	catches := []string{"probe(e)", "throw e", "throw \"again\"", "probe(2); return 8", "", "zz = 1 % 0", "break", "e = 3; probe(e)",
		"func() { throw e }()", "defer probe(\"dc\")"}
	finals := []string{"", " finally { probe(\"f\") }", " finally { throw \"ff\" }", " finally { return 9 }"}
	var out []string
	for _, b := range bodies {
		for _, c := range catches {
			for _, f := range finals {
				t := "try { " + b + "; probe(\"after-body\") } catch e { " + c + " }" + f
				out = append(out,
					"func thrower() { throw \"from-callee\" }\nfunc run() { probe(\"start\"); "+t+"; probe(\"after-try\"); return 1 }\n"+
						"r = nil; try { r = run() } catch outer { probe(\"outer\") }\nprobe(r)",
					"func thrower() { throw \"from-callee\" }\nfor i = 0; i < 2; i++ { probe(i); "+t+"; probe(\"after-try\") }\nprobe(\"end\")")
			}
		}
	}
	return out
}

// ---- C04: invocations, recursion, closures (each over the call paths: arity 0-6 and variadic) ----
func c04Invocations() []string {
	var out []string
	params := []string{"", "p1", "p1, p2", "p1, p2, p3", "p1, p2, p3, p4", "p1, p2, p3, p4, p5", "p1, p2, p3, p4, p5, p6", "p1, rest..."}
	args := func(i int, first string) string {
		n := i
		if i == 7 {
			n = 3
		}
		var a []string
		for k := 0; k < n; k++ {
			if k == 0 {
				a = append(a, first)
			} else {
				a = append(a, fmt.Sprint(k))
			}
		}
		return strings.Join(a, ", ")
	}
	for i, ps := range params {
		n := "p1"
		if i == 0 {
			n = "depth"
		}
		pre := ""
		if i == 0 {
			pre = "depth = 3\n"
		}
		dec := args(i, n+" - 1")
		if i == 0 {
			dec = ""
		}
		step := ""
		if i == 0 {
			step = "depth = depth - 1; "
		}
		// recursion using a plainly assigned local after the recursive call
		out = append(out, pre+"func r("+ps+") { t = "+n+"; if "+n+" > 0 { "+step+"r("+dec+") }; probe(t); return t }\nprobe(r("+args(i, "3")+"))")
		// a local read before it is assigned, in the second call of the same function value
		out = append(out, "func g("+ps+") { probe(loc ?? \"unset\"); loc = 5; var v = 6; return loc }\ng("+args(i, "1")+"); g("+args(i, "2")+"); probe(loc ?? \"no-loc\"); probe(v ?? \"no-v\")")
		// closure factory called twice: independent captured scopes
		out = append(out, "func mk("+ps+") { c = 0; return func() { c = c + 1; return c } }\nf = mk("+args(i, "1")+"); g = mk("+args(i, "1")+")\nprobe(f()); probe(f()); probe(g()); probe(f()); probe(c ?? \"no-c\")")
		// parameters shadow outer names and do not leak
		out = append(out, "p1 = \"outer\"; x = 1\nfunc h("+ps+") { x = 2; var y = 3; p1 = \"inner\"; return p1 }\nprobe(h("+args(i, "9")+")); probe(p1); probe(x); probe(y ?? \"no-y\")")
		// re-entrant call through a callback argument
		out = append(out, "func outer2(cb) { t = \"o\"; cb(); probe(t) }\nfunc inner2("+ps+") { t = \"i\"; probe(t) }\nouter2(func() { inner2("+args(i, "1")+") }); probe(t ?? \"no-t\")")
	}
	// closure created in a block that has ended, called later; loop variable capture; module function
	out = append(out,
		"fs = []\nfor i in [1, 2, 3] { var k = i * 10; fs += func() { k = k + 1; return k } }\nprobe(fs[0]()); probe(fs[0]()); probe(fs[2]()); probe(k ?? \"no-k\")",
		"if true { var hidden = 1; peek = func() { hidden = hidden + 1; return hidden } }\nprobe(peek()); probe(peek()); probe(hidden ?? \"gone\")",
		"module M { v = 1; func get() { return v }; func set(n) { v = n } }\nM.set(5); probe(M.get()); probe(v ?? \"no-v\"); v = 9; probe(M.get())",
		"a = 1\nfunc up() { a = a + 1; var b = a; return b }\nprobe(up()); probe(up()); probe(a); probe(b ?? \"no-b\")",
		"try { throw \"x\" } catch err { var inner = 1; probe(err) }\nprobe(err ?? \"no-err\"); probe(inner ?? \"no-inner\")",
		"for k, v in {\"a\": 1} { var z = v }\nprobe(k ?? \"no-k\"); probe(v ?? \"no-v\"); probe(z ?? \"no-z\")",
		"func fact(n) { if n < 2 { return 1 }; m = n; r = fact(n - 1); return m * r }\nprobe(fact(5)); probe(m ?? \"no-m\")")
	return out
}

// ---- C02: spinning cores under every wrapping construct ----
func c02Programs() []string {
	cores := []string{
		"for { probe(\"spin\") }",
		"n = 0; for true { n++ }",
		"for i = 0; true; i++ { n = i }",
		"for i = 0; ; i++ { }",
		"for x in [1, 2, 3] { for { } }",
		"for k, v in {\"a\": 1} { for { n = k } }",
		"func r(n) { r(n + 1) }; r(0)",
		"func r6(a, b, c, d, e, f) { r6(a + 1, b, c, d, e, f) }; r6(0, 1, 2, 3, 4, 5)",
		"for { try { throw 1 } catch { } }",
		"for { try { zz = 1 % 0 } catch e { probe(\"c-in\") } finally { n = 1 } }",
		"for { n = nil ?? 1 }",
		"for { n = (1 % 0) ?? 2 }",
		"for { switch 1 {\ncase 1: n = 1\n} }",
		"for { if true { n = 1 } else { n = 2 } }",
		"for { n = func(a) { return a }(1) }",
		"for { n = [1, 2][0] + len(\"ab\") }",
		"for { probe(probe2(probe(\"in\"), hzero())) }",
		"for { n = [probe(1), probe(2), hfix3(probe(3), 4, probe(5))] }",
	}
	wraps := []string{
		"%s",
		"func w0() { %s }\nw0()",
		"func w1(a) { %s }\nw1(1)",
		"func w4(a, b, c, d) { %s }\nw4(1, 2, 3, 4)",
		"func w5(a, b, c, d, e) { %s }\nw5(1, 2, 3, 4, 5)",
		"func wv(a, rest...) { %s }\nwv(1, 2, 3)",
		"func ws(a, b) { %s }\nws([1, 2]...)",
		"try { %s } catch e { probe(\"caught\") } finally { probe(\"finally\") }",
		"try { func() { %s }() } catch e { probe(\"caught\"); probe(\"caught2\") }\nprobe(\"after\")",
		"x = func() { %s }() ?? probe(\"rhs\")\nprobe(\"after\")",
		"x = [func() { %s }() ?? probe(\"rhs1\"), func() { %s }() ?? probe(\"rhs2\")]\nprobe(\"after\")",
		"defer probe(\"d\")\n%s",
		"func wd() { defer probe(\"d\"); defer func() { probe(\"d\") }(); %s }\nwd()\nprobe(\"after\")",
		"if true { %s }\nprobe(\"after\")",
		"switch 1 {\ncase 1: %s\n}\nprobe(\"after\")",
		"module m { %s }\nprobe(\"after\")",
		"for q in [1, 2] { %s }\nprobe(\"after\")",
		"func outer() { try { %s } catch e { return 1 }; return 2 }\nprobe(outer() ?? \"swallowed\")",
		"y = true ? func() { %s }() : 0\nprobe(\"after\")",
		"z = func() { %s }() || probe(\"rhs\")\nprobe(\"after\")",
		// the spinning core inside a deferred script function of a frame that is left by an explicit return: the
		// interruption of the deferred call is what the frame ends with
		"func wr() { defer func() { %s }(); return 1 }\nwr()",
		"func wr() { defer func() { %s }(); return 1 }\nx = [wr(), 2]\nprobe(\"after\")",
		"func wr5(a, b, c, d, e) { defer func() { %s }(); return 1 }\nwr5(1, 2, 3, 4, 5)",
		"func wr() { defer func() { %s }(); return 1 }\ny = wr() + 1\nprobe(\"after\")",
		"func wt() { defer func() { %s }(); throw \"body\" }\ntry { wt() } catch e { probe(\"caught\") }\nprobe(\"after\")",
		"defer func() { %s }()\nreturn 1",
	}
	var out []string
	for _, c := range cores {
		for _, w := range wraps {
			out = append(out, strings.ReplaceAll(w, "%s", c))
		}
	}
	return out
}
