package main

// A script that defeats cancellation can take the whole process down (a Go stack overflow is fatal and
// cannot be recovered) or never return.  The interp subcommands therefore run in a supervised child:
// before each program runs, the child notes its running number in a progress file; if the child dies
// or stops advancing, the supervisor records that number, and starts the (deterministic) generation
// again with the implementation run of the recorded numbers replaced by the status "crash".

import (
	"fmt"
	"os"
	"os/exec"
	"path/filepath"
	"strconv"
	"strings"
	"time"
)

var (
	superSkip     = map[int]string{}
	superCounter  int
	superProgress *os.File
	superFrom     = -1
)

func superInit() {
	for _, f := range strings.Split(os.Getenv("VERIF_SKIP"), ",") {
		kv := strings.SplitN(f, ":", 2)
		if i, err := strconv.Atoi(kv[0]); err == nil && len(kv) == 2 {
			superSkip[i] = kv[1]
		}
	}
	if i, err := strconv.Atoi(os.Getenv("VERIF_SKIP_FROM")); err == nil {
		superFrom = i
	}
	if p := os.Getenv("VERIF_PROGRESS"); p != "" {
		superProgress, _ = os.OpenFile(p, os.O_CREATE|os.O_WRONLY|os.O_TRUNC, 0o644)
	}
}

// superBegin is called before a program is handed to the implementation; it returns a non-empty
// reason when this run must not be attempted again.
func superBegin() string {
	i := superCounter
	superCounter++
	if why, ok := superSkip[i]; ok {
		return why
	}
	if superFrom >= 0 && i >= superFrom {
		return "not run: the harness child had already failed on 8 programs"
	}
	if superProgress != nil {
		superProgress.WriteAt([]byte(fmt.Sprintf("%-12d\n", i)), 0)
	}
	return ""
}

// supervise runs this same command line as a child until it completes.
func supervise(outDir string) error {
	self, _ := os.Executable()
	progress := filepath.Join(outDir, "progress.txt")
	var skips []string
	from := ""
	for attempt := 0; attempt < 10; attempt++ {
		os.Remove(progress)
		cmd := exec.Command(self, os.Args[1:]...)
		cmd.Env = append(os.Environ(), "VERIF_CHILD=1", "VERIF_SKIP="+strings.Join(skips, ","), "VERIF_PROGRESS="+progress, "VERIF_SKIP_FROM="+from)
		cmd.Stdout = os.Stdout
		errf, _ := os.Create(filepath.Join(outDir, "child.stderr"))
		cmd.Stderr = errf
		if err := cmd.Start(); err != nil {
			return err
		}
		done := make(chan error, 1)
		go func() { done <- cmd.Wait() }()
		last, lastChange, reason := "", time.Now(), ""
		var werr error
	wait:
		for {
			select {
			case werr = <-done:
				break wait
			case <-time.After(500 * time.Millisecond):
				b, _ := os.ReadFile(progress)
				if s := strings.TrimSpace(string(b)); s != last {
					last, lastChange = s, time.Now()
				} else if time.Since(lastChange) > 60*time.Second {
					reason = "hang"
					cmd.Process.Kill()
					werr = <-done
					break wait
				}
			}
		}
		errf.Close()
		if werr == nil {
			return nil
		}
		b, _ := os.ReadFile(progress)
		idx, perr := strconv.Atoi(strings.TrimSpace(string(b)))
		if perr != nil {
			eb, _ := os.ReadFile(filepath.Join(outDir, "child.stderr"))
			return fmt.Errorf("harness child failed before running a program: %v: %s", werr, tail(string(eb), 600))
		}
		if reason == "" {
			eb, _ := os.ReadFile(filepath.Join(outDir, "child.stderr"))
			reason = "crash"
			for _, l := range strings.Split(string(eb), "\n") {
				if strings.HasPrefix(l, "fatal error:") || strings.HasPrefix(l, "runtime:") || strings.HasPrefix(l, "panic:") {
					reason = "crash " + strings.NewReplacer(",", ";", ":", " ").Replace(l)
					break
				}
			}
		}
		skips = append(skips, fmt.Sprintf("%d:%s", idx, reason))
		if len(skips) >= 8 {
			from = fmt.Sprint(idx + 1)
		}
	}
	return fmt.Errorf("harness child kept failing: %v", skips)
}

func tail(s string, n int) string {
	if len(s) > n {
		return s[len(s)-n:]
	}
	return s
}
