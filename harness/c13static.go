package main

// C13, static part: the lock structure of package env, regenerated from the source on every run
// (go/ast).  For every method of *Env: each access to the maps `values` / `types` and to the field `externalLookup` through the
// receiver with the lock state at that point, and the sequence of lock acquisitions on the
// receiver's scope (direct, or through a call of another locking method on the same receiver).

import (
	"fmt"
	"go/ast"
	"go/build"
	"go/parser"
	"go/token"
	"os"
	"path/filepath"
	"sort"
	"strings"
)

type lockAccess struct {
	Func  string `json:"func"`
	Field string `json:"field"`
	Write bool   `json:"write"`
	Lock  int    `json:"lock"` // 0 none, 1 read, 2 write, 3 unknown (branches disagree)
	Line  int    `json:"line"`
}

type lockFunc struct {
	Name  string     `json:"name"`
	Paths [][]string `json:"paths"` // per control path: acq / call:<method> / move (receiver variable reassigned); loops unrolled twice
}

type lockWalker struct {
	fset     *token.FileSet
	recv     string
	fn       string
	state    int
	accesses []lockAccess
	events   []string
	paths    [][]string // paths that ended in a return
}

func (w *lockWalker) isField(e ast.Expr) (string, bool) {
	if s, ok := e.(*ast.SelectorExpr); ok {
		if id, ok := s.X.(*ast.Ident); ok && id.Name == w.recv && (s.Sel.Name == "values" || s.Sel.Name == "types" || s.Sel.Name == "externalLookup") {
			return s.Sel.Name, true
		}
	}
	return "", false
}

func (w *lockWalker) note(field string, write bool, pos token.Pos) {
	w.accesses = append(w.accesses, lockAccess{Func: w.fn, Field: field, Write: write, Lock: w.state, Line: w.fset.Position(pos).Line})
}

// expression in read position
func (w *lockWalker) expr(e ast.Expr) {
	ast.Inspect(e, func(n ast.Node) bool {
		switch x := n.(type) {
		case *ast.FuncLit:
			return false
		case *ast.CallExpr:
			if id, ok := x.Fun.(*ast.Ident); ok && id.Name == "delete" && len(x.Args) == 2 {
				if f, ok := w.isField(x.Args[0]); ok {
					w.note(f, true, x.Pos())
					w.expr(x.Args[1])
					return false
				}
			}
			if s, ok := x.Fun.(*ast.SelectorExpr); ok {
				// e.rwMutex.Lock()
				if in, ok := s.X.(*ast.SelectorExpr); ok && in.Sel.Name == "rwMutex" {
					if id, ok := in.X.(*ast.Ident); ok && id.Name == w.recv {
						switch s.Sel.Name {
						case "Lock":
							w.state = 2
							w.events = append(w.events, "acq")
						case "RLock":
							w.state = 1
							w.events = append(w.events, "acq")
						case "Unlock", "RUnlock":
							w.state = 0
						}
						return false
					}
				}
				// e.Method(...)
				if id, ok := s.X.(*ast.Ident); ok && id.Name == w.recv {
					w.events = append(w.events, "call:"+s.Sel.Name)
				}
			}
		case *ast.SelectorExpr:
			if f, ok := w.isField(x); ok {
				w.note(f, false, x.Pos())
				return false
			}
		}
		return true
	})
}

func (w *lockWalker) assign(s *ast.AssignStmt) {
	for _, r := range s.Rhs {
		w.expr(r)
	}
	for _, l := range s.Lhs {
		switch x := l.(type) {
		case *ast.IndexExpr:
			if f, ok := w.isField(x.X); ok {
				w.note(f, true, x.Pos())
				w.expr(x.Index)
				continue
			}
			w.expr(l)
		case *ast.Ident:
			if x.Name == w.recv {
				w.events = append(w.events, "move")
			}
		default:
			if f, ok := w.isField(l); ok {
				w.note(f, true, l.Pos())
				continue
			}
			w.expr(l)
		}
	}
}

// returns true when the block always leaves the function
func (w *lockWalker) block(stmts []ast.Stmt) bool {
	for _, st := range stmts {
		if w.stmt(st) {
			return true
		}
	}
	return false
}

func (w *lockWalker) stmt(st ast.Stmt) bool {
	switch s := st.(type) {
	case *ast.AssignStmt:
		w.assign(s)
	case *ast.ExprStmt:
		w.expr(s.X)
	case *ast.DeferStmt:
		// defer e.rwMutex.RUnlock(): held to the end of the function
		if sel, ok := s.Call.Fun.(*ast.SelectorExpr); ok && (sel.Sel.Name == "Unlock" || sel.Sel.Name == "RUnlock") {
			return false
		}
		w.expr(s.Call)
	case *ast.ReturnStmt:
		for _, r := range s.Results {
			w.expr(r)
		}
		return true
	case *ast.IfStmt:
		if s.Init != nil {
			w.stmt(s.Init)
		}
		w.expr(s.Cond)
		before := w.state
		evBefore := append([]string{}, w.events...)
		t1 := w.block(s.Body.List)
		s1 := w.state
		if t1 {
			w.paths = append(w.paths, w.events)
			w.events = append([]string{}, evBefore...)
		}
		w.state = before
		t2 := false
		if s.Else != nil {
			evMid := append([]string{}, w.events...)
			t2 = w.stmt(s.Else)
			if t2 {
				w.paths = append(w.paths, w.events)
				w.events = evMid
			}
		}
		s2 := w.state
		switch {
		case t1 && t2:
			return true
		case t1:
			w.state = s2
		case t2:
			w.state = s1
		case s1 != s2:
			w.state = 3
		}
	case *ast.BlockStmt:
		return w.block(s.List)
	case *ast.ForStmt:
		if s.Init != nil {
			w.stmt(s.Init)
		}
		for k := 0; k < 2; k++ { // unrolled twice: adjacency of the last and the first acquisition
			if s.Cond != nil {
				w.expr(s.Cond)
			}
			w.block(s.Body.List)
			if s.Post != nil {
				w.stmt(s.Post)
			}
		}
	case *ast.RangeStmt:
		w.expr(s.X)
		for k := 0; k < 2; k++ {
			w.block(s.Body.List)
		}
	case *ast.DeclStmt:
		ast.Inspect(s, func(n ast.Node) bool {
			if e, ok := n.(ast.Expr); ok {
				w.expr(e)
				return false
			}
			return true
		})
	case *ast.IncDecStmt:
		w.expr(s.X)
	case *ast.SwitchStmt:
		if s.Init != nil {
			w.stmt(s.Init)
		}
		if s.Tag != nil {
			w.expr(s.Tag)
		}
		for _, c := range s.Body.List {
			cc := c.(*ast.CaseClause)
			for _, e := range cc.List {
				w.expr(e)
			}
			before := w.state
			if w.block(cc.Body) {
				w.state = before
			}
		}
	case *ast.BranchStmt:
	default:
		ast.Inspect(st, func(n ast.Node) bool {
			if e, ok := n.(ast.Expr); ok {
				w.expr(e)
				return false
			}
			return true
		})
	}
	return false
}

func envLockTable(repo string) ([]lockAccess, []lockFunc, error) {
	dir := filepath.Join(repo, "env")
	bp, err := build.Default.ImportDir(dir, 0)
	if err != nil {
		return nil, nil, err
	}
	fset := token.NewFileSet()
	var accesses []lockAccess
	var funcs []lockFunc
	files := append([]string{}, bp.GoFiles...)
	sort.Strings(files)
	for _, fn := range files {
		f, err := parser.ParseFile(fset, filepath.Join(dir, fn), nil, 0)
		if err != nil {
			return nil, nil, err
		}
		for _, d := range f.Decls {
			fd, ok := d.(*ast.FuncDecl)
			if !ok || fd.Body == nil {
				continue
			}
			recv := ""
			if fd.Recv != nil && len(fd.Recv.List) == 1 && len(fd.Recv.List[0].Names) == 1 {
				if st, ok := fd.Recv.List[0].Type.(*ast.StarExpr); ok {
					if id, ok := st.X.(*ast.Ident); ok && id.Name == "Env" {
						recv = fd.Recv.List[0].Names[0].Name
					}
				}
			}
			if recv == "" {
				// functions that are not methods of *Env must not touch the maps of an existing scope at all
				w := &lockWalker{fset: fset, recv: "\x00", fn: fd.Name.Name}
				ast.Inspect(fd.Body, func(n ast.Node) bool {
					if s, ok := n.(*ast.SelectorExpr); ok && (s.Sel.Name == "values" || s.Sel.Name == "types") {
						if _, isLit := s.X.(*ast.CompositeLit); !isLit {
							w.note(s.Sel.Name, true, s.Pos())
						}
					}
					return true
				})
				accesses = append(accesses, w.accesses...)
				continue
			}
			w := &lockWalker{fset: fset, recv: recv, fn: fd.Name.Name}
			w.block(fd.Body.List)
			accesses = append(accesses, w.accesses...)
			funcs = append(funcs, lockFunc{Name: fd.Name.Name, Paths: append(w.paths, w.events)})
		}
	}
	return accesses, funcs, nil
}

func writeLockTable(repo, outDir string) ([]lockAccess, []lockFunc, error) {
	acc, funcs, err := envLockTable(repo)
	if err != nil {
		return nil, nil, err
	}
	if err := os.MkdirAll(filepath.Join(outDir, "AnkoGen"), 0o755); err != nil {
		return nil, nil, err
	}
	var sb strings.Builder
	sb.WriteString("(* Regenerated on every run by harness/c13static.go from " + repo + "/env/*.go (go/ast). *)\n")
	sb.WriteString("From Coq Require Import String List.\nFrom Anko Require Import Conc.LockTable.\nImport ListNotations.\nOpen Scope string_scope.\n")
	sb.WriteString("Definition accesses : list access := [\n")
	for i, a := range acc {
		sep := ";"
		if i == len(acc)-1 {
			sep = ""
		}
		fmt.Fprintf(&sb, "  mkAccess %s %s %v %d %d%s\n", coqStr(a.Func), coqStr(a.Field), a.Write, a.Lock, a.Line, sep)
	}
	sb.WriteString("].\nDefinition methods : list method := [\n")
	for i, f := range funcs {
		sep := ";"
		if i == len(funcs)-1 {
			sep = ""
		}
		var ps []string
		for _, p := range f.Paths {
			var evs []string
			for _, e := range p {
				switch {
				case e == "acq":
					evs = append(evs, "EAcq")
				case e == "move":
					evs = append(evs, "EMove")
				default:
					evs = append(evs, "ECall "+coqStr(strings.TrimPrefix(e, "call:")))
				}
			}
			ps = append(ps, "["+strings.Join(evs, "; ")+"]")
		}
		fmt.Fprintf(&sb, "  mkMethod %s [%s]%s\n", coqStr(f.Name), strings.Join(ps, "; "), sep)
	}
	sb.WriteString("].\n")
	return acc, funcs, os.WriteFile(filepath.Join(outDir, "AnkoGen", "GenLocks.v"), []byte(sb.String()), 0o644)
}
