package main

// C16: pipeline programs (producer, mapping stages, consumer; goroutines and channels) on the real
// interpreter, many runs under varying GOMAXPROCS; what the consumer collected is compared with the
// answer of the extracted channel machine (whose theorems cover every schedule).

import (
	"context"
	"encoding/json"
	"fmt"
	"os"
	"path/filepath"
	"runtime"
	"strings"
	"time"

	"github.com/mattn/anko/env"
	"github.com/mattn/anko/vm"
)

type c16Stage struct {
	F   int `json:"f"`
	Cap int `json:"cap"`
}

type c16Prog struct {
	Cap0     int        `json:"cap0"`
	Stages   []c16Stage `json:"stages"`
	Items    []int64    `json:"items"`
	Elem     string     `json:"elem"`     // channel element type
	Consumer int        `json:"consumer"` // 0 for-in, 1 receive statement with ok, 2 receive expression until nil
	Producer int        `json:"producer"` // 0 for-in over a list, 1 counted loop
	Src      string     `json:"src"`
	Runs     []string   `json:"runs"` // projected results, one per run
}

var c16FunSrc = []string{"x", "x + 1", "x * 2", "x - 3", "-x"}

func c16Render(p *c16Prog) string {
	var sb strings.Builder
	mk := func(i, cap int) {
		if cap > 0 {
			fmt.Fprintf(&sb, "c%d = make(chan %s, %d)\n", i, p.Elem, cap)
		} else {
			fmt.Fprintf(&sb, "c%d = make(chan %s)\n", i, p.Elem)
		}
	}
	mk(0, p.Cap0)
	for i, s := range p.Stages {
		mk(i+1, s.Cap)
	}
	var items []string
	for _, it := range p.Items {
		items = append(items, fmt.Sprint(it))
	}
	fmt.Fprintf(&sb, "items = [%s]\n", strings.Join(items, ", "))
	switch p.Producer {
	case 0:
		sb.WriteString("go func() { for x in items { c0 <- x }; close(c0) }()\n")
	case 1:
		sb.WriteString("go func() { for i = 0; i < len(items); i++ { c0 <- items[i] }; close(c0) }()\n")
	case 2: // go call of a variadic function with a spread argument
		sb.WriteString("func produce(ch, xs...) { for x in xs { ch <- x }; close(ch) }\ngo produce(c0, items...)\n")
	case 3: // go call with ordinary arguments, evaluated by the caller
		sb.WriteString("func produce(ch, xs) { for x in xs { ch <- x }; close(ch) }\ngo produce(c0, items)\nitems = [-999]\n")
	}
	for i, s := range p.Stages {
		if p.Producer >= 2 && i%2 == 0 {
			fmt.Fprintf(&sb, "func stage%d(cin, cout) { for x in cin { cout <- %s }; close(cout) }\ngo stage%d(c%d, c%d)\n", i, c16FunSrc[s.F], i, i, i+1)
			continue
		}
		fmt.Fprintf(&sb, "go func() { for x in c%d { c%d <- %s }; close(c%d) }()\n", i, i+1, c16FunSrc[s.F], i+1)
	}
	last := len(p.Stages)
	sb.WriteString("res = []\n")
	switch p.Consumer {
	case 0:
		fmt.Fprintf(&sb, "for x in c%d { res += [x] }\n", last)
	case 1:
		fmt.Fprintf(&sb, "for { v, ok = <- c%d; if !ok { break }; res += [v] }\n", last)
	case 2:
		fmt.Fprintf(&sb, "for { v = (<- c%d); if v == nil { break }; res += [v] }\n", last)
	case 3: // ok lives outside the block the receive statement stands in
		fmt.Fprintf(&sb, "ok = true; v = nil\nfor ok { if true { v, ok = <- c%d; if ok { res += [v] } } }\n", last)
	case 4: // the receive statement inside a try block and inside a function that sets outer names
		fmt.Fprintf(&sb, "ok = true; v = nil\nfunc take() { try { v, ok = <- c%d } catch e { ok = false } }\nfor ok { take(); if ok { res += [v] } }\n", last)
	}
	sb.WriteString("res\n")
	return sb.String()
}

// fan-in: several producers into one channel, a closer that waits for all of them, one consumer
type c16Fan struct {
	Cap   int      `json:"cap"`
	Ns    []int    `json:"ns"`    // items per producer; producer p sends p*100000 + 0..n-1
	Style int      `json:"style"` // 0 named function started with go, 1 anonymous closures
	Elem  string   `json:"elem"`
	Src   string   `json:"src"`
	Runs  []string `json:"runs"`
}

func c16RenderFan(f *c16Fan) string {
	var sb strings.Builder
	if f.Cap > 0 {
		fmt.Fprintf(&sb, "c = make(chan %s, %d)\n", f.Elem, f.Cap)
	} else {
		fmt.Fprintf(&sb, "c = make(chan %s)\n", f.Elem)
	}
	sb.WriteString("done = make(chan bool)\n")
	if f.Style == 0 {
		sb.WriteString("func produce(base, n) { for i = 0; i < n; i++ { c <- base + i }; done <- true }\n")
	}
	for p, n := range f.Ns {
		if f.Style == 0 {
			fmt.Fprintf(&sb, "go produce(%d, %d)\n", p*100000, n)
		} else {
			fmt.Fprintf(&sb, "go func() { for i = 0; i < %d; i++ { c <- %d + i }; done <- true }()\n", n, p*100000)
		}
	}
	fmt.Fprintf(&sb, "go func() { for i = 0; i < %d; i++ { z = (<- done) }; close(c) }()\n", len(f.Ns))
	sb.WriteString("res = []\nfor x in c { res += [x] }\nres\n")
	return sb.String()
}

func c16Run(src string) string {
	e := env.NewEnv()
	ctx, cancel := context.WithTimeout(context.Background(), 4*time.Second)
	defer cancel()
	type out struct {
		v   interface{}
		err error
	}
	done := make(chan out, 1)
	go func() {
		defer func() {
			if p := recover(); p != nil {
				done <- out{nil, fmt.Errorf("PANIC %v", p)}
			}
		}()
		v, err := vm.ExecuteContext(ctx, e, nil, src)
		done <- out{v, err}
	}()
	select {
	case o := <-done:
		if o.err != nil {
			return "error: " + o.err.Error()
		}
		l, ok := o.v.([]interface{})
		if !ok {
			return fmt.Sprintf("not a list: %T", o.v)
		}
		var p []string
		for _, x := range l {
			switch n := x.(type) {
			case int64:
				p = append(p, fmt.Sprint(n))
			case float64:
				if n == float64(int64(n)) {
					p = append(p, fmt.Sprint(int64(n)))
				} else {
					p = append(p, fmt.Sprint(n))
				}
			default:
				p = append(p, fmt.Sprintf("%T:%v", x, x))
			}
		}
		return "(" + strings.Join(p, " ") + ")"
	case <-time.After(6 * time.Second):
		return "TIMEOUT"
	}
}

func c16Main(seed uint64, n int, outDir string) error {
	rnd := NewRand(seed, "c16")
	runsPer := 6
	if n > 2000 {
		runsPer = 12
	}
	procs := []int{1, 2, 4, 16, 3, 8}
	prev := runtime.GOMAXPROCS(0)
	defer runtime.GOMAXPROCS(prev)
	var progs []*c16Prog
	sx, err := os.Create(filepath.Join(outDir, "cases.sx"))
	if err != nil {
		return err
	}
	defer sx.Close()
	stuck := 0
	for i := 0; i < n && stuck < 6; i++ {
		p := &c16Prog{Cap0: []int{0, 0, 1, 2, 5}[rnd.Intn(5)], Elem: []string{"int64", "int64", "interface", "float64"}[rnd.Intn(4)],
			Consumer: rnd.Intn(5), Producer: rnd.Intn(4)}
		ns := rnd.Intn(5)
		for j := 0; j < ns; j++ {
			p.Stages = append(p.Stages, c16Stage{F: rnd.Intn(5), Cap: []int{0, 0, 1, 3}[rnd.Intn(4)]})
		}
		ni := []int{0, 1, 2, 5, 12, 40}[rnd.Intn(6)]
		for j := 0; j < ni; j++ {
			v := int64(rnd.Intn(200)) - 50
			if p.Consumer == 2 && false {
				v++
			}
			p.Items = append(p.Items, v)
		}
		p.Src = c16Render(p)
		for r := 0; r < runsPer; r++ {
			runtime.GOMAXPROCS(procs[(i+r)%len(procs)])
			out := c16Run(p.Src)
			p.Runs = append(p.Runs, out)
			if strings.HasPrefix(out, "error") || out == "TIMEOUT" {
				stuck++
				break // one run that does not finish is enough for this program
			}
		}
		var st, it []string
		for _, s := range p.Stages {
			st = append(st, fmt.Sprintf("(%d %d)", s.F, s.Cap))
		}
		for _, v := range p.Items {
			it = append(it, fmt.Sprint(v))
		}
		fmt.Fprintf(sx, "c16 (%d (%s) (%s))\n", p.Cap0, strings.Join(st, " "), strings.Join(it, " "))
		progs = append(progs, p)
	}
	var fans []*c16Fan
	fsx, err := os.Create(filepath.Join(outDir, "fan.sx"))
	if err != nil {
		return err
	}
	defer fsx.Close()
	nf := n / 5
	for i := 0; i < nf+3 && stuck < 6; i++ {
		f := &c16Fan{Cap: []int{0, 1, 1, 2, 5}[rnd.Intn(5)], Style: rnd.Intn(2), Elem: []string{"int64", "int64", "interface"}[rnd.Intn(3)]}
		np := 2 + rnd.Intn(3)
		for p := 0; p < np; p++ {
			f.Ns = append(f.Ns, []int{0, 1, 5, 40, 300}[rnd.Intn(5)])
		}
		if i < 3 { // always: heavy contention on a one-slot channel
			f.Cap, f.Ns = 1, []int{1500, 1500, 1500, 1500}
		}
		f.Src = c16RenderFan(f)
		for r := 0; r < runsPer; r++ {
			runtime.GOMAXPROCS([]int{4, 8, 16, 2, 3, 1}[(i+r)%6])
			out := c16Run(f.Src)
			f.Runs = append(f.Runs, out)
			if strings.HasPrefix(out, "error") || out == "TIMEOUT" {
				stuck++
				break
			}
		}
		var its []string
		for p, n := range f.Ns {
			var vs []string
			for j := 0; j < n; j++ {
				vs = append(vs, fmt.Sprint(p*100000+j))
			}
			its = append(its, "("+strings.Join(vs, " ")+")")
		}
		for _, out := range f.Runs {
			var ms []string
			if strings.HasPrefix(out, "(") {
				for _, t := range strings.Fields(strings.Trim(out, "()")) {
					var v int64
					if _, err := fmt.Sscan(t, &v); err != nil {
						ms = append(ms, "(99 0)") // not a number: no producer sent it
						continue
					}
					ms = append(ms, fmt.Sprintf("(%d %d)", v/100000, v))
				}
			} else {
				ms = append(ms, "(99 0)")
			}
			fmt.Fprintf(fsx, "c16f ((%s) (%s))\n", strings.Join(its, " "), strings.Join(ms, " "))
		}
		fans = append(fans, f)
	}
	mb, _ := json.Marshal(map[string]interface{}{"programs": progs, "runs_per_program": runsPer, "fans": fans})
	return os.WriteFile(filepath.Join(outDir, "meta.json"), mb, 0o644)
}
