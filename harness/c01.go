package main

// C01: a script can never crash the embedding Go program.  Programs are run in child processes
// (this binary re-executed as "c01child") so that a panic escaping on any goroutine, or a fatal
// runtime fault, is observed as the death of the child and attributed to the program in flight.

import (
	"sort"
	"bufio"
	"encoding/json"
	"fmt"
	"os"
	"os/exec"
	"path/filepath"
	"reflect"
	"strings"
	"time"

	"github.com/mattn/anko/env"
	"github.com/mattn/anko/parser"
	"github.com/mattn/anko/vm"
)

type c01Prog struct {
	Src    string `json:"src"`
	Stream string `json:"stream"`
}

type c01Result struct {
	Src    string `json:"src"`
	Stream string `json:"stream"`
	Status string `json:"status"` // ok err parse-error panic crash timeout
	Msg    string `json:"msg,omitempty"`
}

// environment of the class the property names: script-constructible values and Go functions over them
// c01Typed has methods on both receivers; a nil *c01Typed is bound into the environment
type c01Typed struct{ N int64 }

func (t *c01Typed) Ptr() int64 { return t.N }
func (t c01Typed) Val() int64  { return t.N }

func c01Env() *env.Env {
	e := env.NewEnv()
	h := &hostPool{}
	h.define(e)
	e.Define("n", int64(3))
	e.Define("fl", 1.5)
	e.Define("str", "text")
	e.Define("t", true)
	e.Define("nothing", nil)
	e.Define("list", []interface{}{int64(1), "two", nil, []interface{}{int64(3)}})
	e.Define("dict", map[interface{}]interface{}{"k": int64(1), int64(2): "v"})
	e.Define("ints", []int64{1, 2, 3})
	e.Define("strs", map[string]string{"a": "b"})
	e.Define("ch", make(chan interface{}, 2))
	var np *int64
	e.Define("nilptrs", []interface{}{np})
	e.Define("pt", &struct{ A, B int64 }{1, 2})
	e.Define("arr", [2]int64{1, 2})
	e.Define("arrs", [][2]int64{{1, 2}})
	e.Define("parr", &[2]int64{1, 2})
	e.Define("earr", [0]string{})
	e.Define("add", func(a, b int64) int64 { return a + b })
	e.Define("cat", func(xs ...string) string { return strings.Join(xs, "") })
	e.Define("boom", func() { panic("host function panics") })
	// nil values of interface types that have methods, the way Go functions hand them out
	e.Define("nilerr", func() error { return nil })
	e.Define("nilstr", func() fmt.Stringer { return nil })
	e.Define("errs", []error{nil, fmt.Errorf("an error")})
	e.Define("oknil", func() (int64, error) { return 1, nil })
	var nilT *c01Typed
	e.Define("nilrecv", nilT)
	e.Define("nilrecvf", func() *c01Typed { return nil })
	e.Define("boomv", func(x interface{}) interface{} { panic(fmt.Errorf("host error %v", x)) })
	// Go functions of many parameter kinds, for the boundary sweep (no conversion may panic)
	for name, fn := range c01BoundaryFuncs {
		e.Define(name, fn)
	}
	m, _ := e.NewModule("mod")
	m.Define("v", int64(1))
	e.DefineType("int64", int64(0))
	return e
}

var c01BoundaryFuncs = map[string]interface{}{
	"b_arr2":   func(a [2]int64) int64 { return a[0] },
	"b_arr0":   func(a [0]string) int64 { return 0 },
	"b_arr4":   func(a [4]int64) int64 { return a[3] },
	"b_parr2":  func(a *[2]int64) int64 { return a[1] },
	"b_slparr": func(a []*[2]int64) int64 { return int64(len(a)) },
	"b_arrarr": func(a [2][1]int64) int64 { return a[1][0] },
	"b_slarr":  func(a [][2]int64) int64 { return int64(len(a)) },
	"b_map":    func(a map[string]int64) int64 { return int64(len(a)) },
	"b_mapsl":  func(a map[string][]int64) int64 { return int64(len(a)) },
	"b_maparr": func(a map[int64][1]string) int64 { return int64(len(a)) },
	"b_ptr":    func(a *int64) int64 { return 1 },
	"b_pptr":   func(a **string) int64 { return 1 },
	"b_fn":     func(f func(int64) int64) int64 { return f(1) },
	"b_fn0":    func(f func()) int64 { f(); return 1 },
	"b_fnv":    func(f func(...int64) int64) int64 { return f(1, 2) },
	"b_fn2r":   func(f func(string) (int64, error)) int64 { a, _ := f("x"); return a },
	"b_struct": func(a struct{ A int64 }) int64 { return a.A },
	"b_chan":   func(a chan int64) int64 { return int64(cap(a)) },
	"b_err":    func(a error) int64 { return 1 },
	"b_u8":     func(a uint8) int64 { return int64(a) },
	"b_f32":    func(a float32) int64 { return 1 },
	"b_rune":   func(a rune) int64 { return int64(a) },
	"b_bytes":  func(a []byte) int64 { return int64(len(a)) },
	"b_var":    func(a int64, r ...[2]int64) int64 { return int64(len(r)) },
	"b_iface":  func(a interface{}, b ...interface{}) int64 { return int64(len(b)) },
}

var c01BoundaryValues = []string{
	"nil", "true", "0", "-1", "300", "9223372036854775807", "1.5", "1e300", "-1e19", "\"\"", "\"a\"", "\"ab\"", "[]", "[1]", "[1, 2]", "[1, 2, 3]", "[1, \"x\"]", "[nil, nil]",
	"[[1], [2]]", "[[1, 2], [3]]", "[[1, 2, 3]]", "{}", "{\"a\": 1}", "{\"a\": [1, 2]}", "{1: [\"x\", \"y\"]}", "{\"a\": nil}", "func() { }", "func(a) { return a }",
	"func(a...) { return a }", "func(a, b) { return a, b }", "func(a) { throw \"in callback\" }", "func(a) { return \"s\" }", "func(a) { return nil }", "n", "fl", "str", "list", "dict", "ints", "strs",
	"ch", "nilptrs", "nilptrs[0]", "pt", "add", "boom", "mod", "new(int64)", "new(string)", "make(chan int64, 1)", "make([]int64, 2)", "make([]int64, 1)", "make([]int64, 0)", "make([]int64, 5)", "make([]int32, 1)", "[make([]int64, 1)]", "make(map[string]int64)", "make(struct { A int64 })", "&n",
}

// c01Child runs the programs of a file one by one, reporting progress on stdout
func c01Child(path string) error {
	f, err := os.Open(path)
	if err != nil {
		return err
	}
	defer f.Close()
	out := bufio.NewWriter(os.Stdout)
	sc := bufio.NewScanner(f)
	sc.Buffer(make([]byte, 1<<20), 1<<26)
	i := 0
	for sc.Scan() {
		var p c01Prog
		if err := json.Unmarshal(sc.Bytes(), &p); err != nil {
			return err
		}
		fmt.Fprintf(out, "START %d\n", i)
		out.Flush()
		status, msg := c01RunOne(p.Src)
		if strings.Contains(p.Src, "go ") {
			time.Sleep(15 * time.Millisecond) // let goroutines started by the script fault now, not later
		}
		fmt.Fprintf(out, "DONE %d %s %s\n", i, status, strings.ReplaceAll(msg, "\n", " "))
		out.Flush()
		if status == "timeout" {
			// the stuck goroutine cannot be killed: leave, the parent restarts after this program
			os.Exit(7)
		}
		i++
	}
	return nil
}

func c01RunOne(src string) (status, msg string) {
	type res struct{ status, msg string }
	done := make(chan res, 1)
	go func() {
		defer func() {
			if p := recover(); p != nil {
				done <- res{"panic", fmt.Sprint(p)}
			}
		}()
		stmt, err := parser.ParseSrc(src)
		if err != nil {
			if _, ok := err.(*parser.Error); !ok {
				done <- res{"panic", "parser returned an error that is not *parser.Error: " + reflect.TypeOf(err).String()}
				return
			}
			// the suite runs trees even after a parse error; so do we when a tree came back
			if stmt == nil {
				done <- res{"parse-error", ""}
				return
			}
		}
		ctx := newDeadlineCtx(400, 300*time.Millisecond)
		if strings.HasPrefix(src, "#long\n") {
			// programs whose goroutines work on the scopes the main goroutine copies: they need time, not statements
			ctx = newDeadlineCtx(4000000, 900*time.Millisecond)
		}
		_, err = vm.RunContext(ctx, c01Env(), &vm.Options{Debug: false}, stmt)
		if err != nil {
			done <- res{"err", err.Error()}
			return
		}
		done <- res{"ok", ""}
	}()
	select {
	case r := <-done:
		return r.status, r.msg
	case <-time.After(4 * time.Second):
		return "timeout", ""
	}
}

// a struct type of more than 64 KiB: reflect refuses it as a channel element
func c01BigStruct() string {
	var fs []string
	for i := 0; i < 8200; i++ {
		fs = append(fs, fmt.Sprintf("A%d int64", i))
	}
	return "struct { " + strings.Join(fs, ", ") + " }"
}

func c01Degenerate() []string {
	var long []string
	// script goroutines that write the variables of a module (and of the scopes around it) while the main goroutine assigns the
	// module to a name, which copies those scopes: scopes are shared by design and guarded by their own locks
	for _, writer := range []string{"m.v0 = i", "m.v0 = i; m.v1 = i + 1", "top = i", "m.v0++", "delete(\"gone\"); gone = i"} {
		for _, copier := range []string{"c = m", "var c = m", "c, d = m, m", "func() { c = m }()", "x = [m][0]; c = x"} {
			long = append(long, "#long\ntop = 0; gone = 0\nmodule m { v0 = 0; v1 = 1; v2 = 2; v3 = 3; v4 = 4; v5 = 5; v6 = 6; v7 = 7 }\n"+
				"for w = 0; w < 4; w++ { go func() { for i = 0; i < 1500; i++ { "+writer+" } }() }\nfor i = 0; i < 1500; i++ { "+copier+" }\n\"done\"")
		}
	}
	return append(append(c01DegenerateForms(), long...),
		// a script function handed to the bundled time package runs on the timer's goroutine
		"t = import(\"time\"); t.AfterFunc(1000000, func() { throw \"on the timer goroutine\" }); t.Sleep(60000000)",
		"t = import(\"time\"); t.AfterFunc(1000000, func() { x = 1 }); t.Sleep(30000000)",
		"make(chan "+c01BigStruct()+")", "c = make(chan "+c01BigStruct()+", 1); c <- nil", "make([]chan "+c01BigStruct()+", 1)",
		"make(type Big, make("+c01BigStruct()+")); make(chan Big)")
}

func c01DegenerateForms() []string {
	return []string{
		"nilerr().Error()", "nilstr().String()", "x = nilerr(); x.Error()", "errs[0].Error()", "errs[1].Error()", "nilerr().Error", "x = nilstr(); x.String", "nilerr().Nope", "x = nilerr(); x.y = 1",
		"a, b = oknil(); b.Error()", "for e in errs { e.Error() }", "[nilerr()][0].Error()", "{\"k\": nilerr()}.k.Error()", "nilerr() == nil", "nilerr() ?? 1", "toString(nilerr())", "nilerr()()",
		"nilerr()[0]", "len(nilerr())", "nilerr() + 1", "-nilerr()", "*nilerr()", "&nilerr()", "for x in nilerr() { }", "throw nilerr()", "switch nilerr() {\ncase nil: 1\n}", "nilerr() in [nil]",
		"nilrecv.Ptr()", "nilrecv.Val()", "nilrecv.N", "nilrecv.N = 1", "nilrecvf().Ptr()", "nilrecvf().Val()", "nilrecvf().N", "nilrecv.Nope", "f = nilrecv.Val; f()", "f = nilrecv.Ptr; f()", "*nilrecv", "nilrecv == nil",
		"var a =", "var a, b =", "x = 1; *x = 2", "f = func(a) { }; f(...)", "f = func(a, b) { }; f(...)", "probe(...)",
		"a = nilptrs; for x in a { x }", "\"s\" * 9223372036854775807", "\"ab\" * 4611686018427387904", "go boom()", "go boomv(1)",
		"go func() { boom() }()", "a = 1; make(a.b)", "add([1, 2]...)", "hfix3([1, 2, 3]...)", "cat([\"a\", \"b\"]...)", "add(list...)",
		"x = nilptrs[0]; \"s\" + x",
		// strings whose characters take several bytes: every index below the byte length, slices, stores, loops
		"a = \"é\"; a[1]", "a = \"é\"; a[0]", "a = \"日本語\"; a[3]", "a = \"日本語\"; a[8]", "a = \"naïve\"; a[len(a) - 1]", "a = \"日本語\"; for i = 0; i < len(a); i++ { a[i] }",
		"a = \"日本語\"; for i = 0; i <= len(a); i++ { a[0:i] }", "a = \"日本語\"; for i = 0; i <= len(a); i++ { a[i:] }", "a = \"é\"; a[1] = \"x\"; a", "a = \"日本語\"; a[4] = \"x\"; a",
		"a = \"日本語\"; a[len(a)] = \"x\"; a", "a = [\"日本語\"]; a[0][7] = \"x\"; a", "a = \"日本語\"; for c in a { c }", "a = \"é\"; a[1:2][0]", "a = \"日本語\"; a[2:5:7]", "\"日本語\"[4]", "a = \"\\xff\\xfe\"; a[1]",
		"a = \"日本語\"; a[1.5]", "a = \"日本語\"; a[\"2\"]", "a = \"日本語\"; delete(a, 1)", "a = \"é\" * 3; a[5]", "a = \"é\"; a += \"ü\"; a[3]", "a = \"é\"; (\"x\" + a)[2]",
		// Go arrays bound by the host: every operator and bracket form on them
		"arr[2] = 9", "q = arr; q[len(q)] = 9", "arrs[0][2] = 1", "earr[0] = \"x\"", "q = arr; q[2] = 9; q", "arr[len(arr)] = arr", "(arr)[2] = 1", "[arr][0][2] = 1", "hid(arr)[2] = 1",
		"arr + 1", "arr + [3]", "[3] + arr", "arr += 1", "arr[0:1]", "arr[0:1:2]", "arr[:]", "arr[1:]", "v = arr; v[0:1]", "arrs[0] + 1", "arrs[0][0:1]", "arrs[0] += arrs[0]", "arr + arr", "arr + nothing",
		"arr + \"s\"", "\"s\" + arr", "arr * 2", "arr - arr", "-arr", "arr[0] = 1", "arr[2]", "arr.x", "arr()", "arr <- 1", "delete(arr, 0)", "for i, v in arr { }", "arr == arr", "arr in [arr]", "[arr...]", "add(arr...)",
		"len(arr)", "arr ? 1 : 2", "arr ?? 1", "x, y = arr", "var x, y = arr", "[]int64{arr}", "{arr: 1}", "{1: 2}[arr]", "arr[arr]", "[1, 2][arr]", "parr + 1", "parr[0:1]", "*parr + 1", "(*parr)[0:1]", "earr + 1", "earr[0:0]",
		// pointers that are nil, typed containers of pointers, types that reflect refuses to build
		"a = make([]*int64, 1); *a[0]", "*nilptrs[0]", "p = nilptrs[0]; *p", "p = nilptrs[0]; *p = 1", "a = make([]*int64, 1); *a[0] = 1", "a = make([]*int64, 2); for x in a { *x }",
		"a = make([]*int64, 1); a[0].x", "a = make([]*int64, 1); a[0][0]", "a = make([]*int64, 1); -a[0]", "a = make([]*int64, 1); a[0]()", "a = make(*int64); *a", "a = new(int64); **a",
		"make(map[struct{A []int64}]int64)", "a = map[struct{A []string}]bool{}", "make(chan map[struct{A struct{B []int64}}]int64)", "make([]map[[]int64]int64)", "make(map[map[string]int64]int64)",
		"make([]map[struct{F func}]int64, 2)", "go func() { make(map[struct{A []int64}]int64) }(); hzero()", "func() { make(map[struct{A []int64}]int64) }()", "make(struct{A map[[]int64]int64})",
		"m = {\"a\": 1, \"b\": 2, \"c\": 3}; for k, v in m { delete(m, \"a\"); delete(m, \"b\"); delete(m, \"c\") }", "m = {\"a\": 1, \"b\": 2}; for k in m { m = nil }",
		"a = [1, 2, 3]; for x in a { a = [] }", "a = make([]int64, 3); for i, x in a { }", "[]*int64{nil}", "[]int64{nothing}", "[][]int64{nothing}", "map[string]*int64{\"a\": nothing}",
		"[][]*string{nilptrs}", "[]*int64{nilptrs[0]}", "p = nilptrs[0]; [][]*int64{[p]}", "return", "a, = 1", "[ ]", "{ }", "throw", "delete()", "close(nothing)", "close(ch); close(ch)",
		"ch <- 1; close(ch); ch <- 2", "<- nothing", "nothing <- 1", "a = []; a[0:1] = [1]", "a = \"s\"; a[1:2] = \"x\"", "*nothing = 1", "*pt = 1",
		"&nothing", "x = &n; *x = \"s\"", "pt.A = \"s\"", "pt.C = 1", "pt.A.B", "nothing.x", "nothing.x = 1", "n.x = 1", "n[0] = 1", "n[0]", "str[-1]", "str[100]",
		"list[1:0]", "list[0:9]", "list[0:1:99]", "list[-1:]", "ints[5] = 1", "ints[3] = \"s\"", "ints[0] = nothing", "strs[1] = 2", "strs.a = nil",
		"dict[list] = 1", "dict[dict]", "delete(dict, list)", "delete(list, 1)", "delete(n)", "{list: 1}", "map[[]int64]int64{}", "make([]int64, -1)",
		"make([]int64, 1, 0)", "make(chan int64, -1)", "make(struct{ A int64, A int64 })", "make(map[func]int64)", "make(nosuch)", "make(mod.nosuch)", "new(nosuch)",
		"make(type T, nothing); make(T)", "make(type T, nothing)", "len(nothing)", "len(n)", "1 in nothing", "nothing in nothing", "for x in nothing { }",
		"for x in n { }", "for k, v in list { }", "for a, b, c in dict { }", "switch { }", "switch nothing {\ncase dict: 1\n}", "switch list {\ncase list: 1\n}",
		"nothing()", "n()", "str(1)", "list(1)", "mod()", "mod.v()", "boom()", "boomv(boomv)", "add(1)", "add(1, 2, 3)", "add(\"a\", nothing)",
		"add(nothing, nothing)", "cat(1, 2)", "cat(nothing)", "cat(list...)", "func(a...) { return a }(nothing...)", "func(a, b...) { return b }(1, n...)",
		"defer boom()", "defer nothing()", "defer n", "defer func() { boom() }()", "func() { defer boom(); throw 1 }()", "x = func() { defer func() { x() }() }; x()",
		"-nothing", "!nothing", "^nothing", "-list", "^str", "-dict", "nothing + nothing", "list + nothing", "nothing + list", "dict + dict", "list * 2", "2 * list",
		"str * -1", "str * fl", "n % 0", "n % nothing", "n / 0", "n << -1", "n >> 64", "1 << 63 << 1", "ch + 1", "mod + 1", "probe + 1", "probe == probe", "dict == dict",
		"list == list", "ch == ch", "mod == mod", "nilptrs == nilptrs", "pt == pt", "nothing ?? nothing", "nothing ? 1 : 2", "x = nothing; x++", "x = str; x++", "x = list; x += x",
		"x = dict; x -= 1", "nothing = 1", "true = false", "1 = 2", "f() = 1", "a.b.c = 1", "a[1][2] = 3", "list[0][0] = 1", "list[3][0] = 9; list", "import(nothing)",
		"import(\"nosuch\")", "import(1)", "module m { module m { throw 1 } }", "module mod { v = 2 }; mod.v", "try { boom() } catch e { e.x }", "try { throw nothing } catch e { throw e }",
		"func f() { return f() }; 1", "a = [1]; a[0] = a; a == a", "a = {}; a.self = a; a.self.self", "a = [1]; a += a; a[1][0]", "x = list[3]; x[0] = list; list",
		"func(a, a) { return a }(1, 2)", "func(...) { }", "for ;; { break }", "for i = 0; i < 1; { i++ }", "if nothing { } else if nothing { } else { }", "a = 1 ? 2", "a = ?? 1",
		"\"\\x\"", "\"unterminated", "`raw", "/* open", "0x", "0b2", "1e", "1.2.3", "1e400", "99999999999999999999", "'ab'", "#", "\x00", "\xff\xfe", "a = \"\xff\"; a[0]",
		"toString", "keys(nothing)", "range(1, 2, 0)", "strs[nothing]", "ints[nothing]", "ints[\"a\"]", "ints[1.5]", "ints + list", "list + ints", "ints + [nothing]", "ints + [\"a\"]",
		// nil pointer elements handed to the loop variable; member syntax on maps whose keys are not strings
		"a = make([]*int64, 1); for x in a { y = x }", "for x in nilptrs { y = x; probe(y) }", "for x in nilptrs { [x] }", "for x in nilptrs { x == nil }",
		"func() { for x in nilptrs { return x } }()", "c = make(chan *int64, 1); c <- nil; close(c); for x in c { y = x; probe(x) }", "for x in nilptrs { f = func() { return x }; f() }",
		"for x in nilptrs { {\"k\": x} }", "for x in nilptrs { x.y }", "for x in nilptrs { \"\" + x }", "for x in [nilptrs[0]] { y = x }",
		"a = make(map[int64]string); a.b = \"x\"", "a = make(map[bool]string); a.b = 1", "a = make(map[float64]int64); a.k = 1", "a = make(map[int64]string); a.b",
		"a = make(map[int64]string); a[\"b\"] = \"x\"", "a = make(map[int64]string); delete(a, \"b\")", "m = map[int64]int64{}; m.x = 1", "m = map[int64]int64{}; m.x += 1",
		"m = make(map[string]int64); m.x = \"s\"", "s = make(struct{M map[int64]string}); s.M.k = \"v\"", "m = make(map[*int64]int64); m.k = 1", "m = make(map[chan int64]int64); m.k = 1",
		"m = make(map[int64]string); m.k++", "m = make(map[interface]int64); m.k = 1; m[nilptrs] = 2", "var m = make(map[int8]int8); m.kk = 1",
		// zero values of types a script defines with make(type ...): function types, module types, Go structs with unexported fields
		"make(type a, func(){}); x = make(a); go x(); hzero()", "make(type a, func(){}); x = make(a); x()", "make(type a, func(x){}); x = make(a); go x(1); hzero()",
		"make(type a, func(x, y, z, w){}); x = make(a); go x(1, 2, 3, 4); hzero()", "make(type a, func(){}); x = make(struct{A a}); go x.A(); hzero()",
		"make(type a, func(){}); x = make(a); func g(h) { go h() }; g(x); hzero()", "make(type a, func(){}); x = make(a); defer x()", "make(type a, func(x...){}); x = make(a); go x(1); hzero()",
		"make(type a, mod); b = make([]a, 1); b[0].c", "make(type a, mod); b = make([]a, 1); b[0].c = 1", "make(type a, mod); b = make([]a, 1); var c = b[0]", "make(type a, mod); b = make([]a, 1); c = b[0]",
		"make(type a, mod); b = make(struct{A a}); b.A.z", "make(type a, mod); e = make([]a, 1); e[0].String()", "make(type a, mod); e = make([]a, 1); for i in e { i.v }",
		"make(type a, mod); e = make(map[string]a); e.a = nil; e.a.v", "make(type a, mod); e = make(chan a, 1); e <- nil; x = <-e; x.v", "make(type a, mod); e = make([]a, 2); var f, g = e; f.v",
		"make(type a, mod); e = make([]a, 2); func f(x) { x.b = 1 }; go f(e[0]); hzero()", "make(type a, mod); e = make([]a, 2); go func() { e[0].b }(); hzero()",
		"x = *mod; x.values", "x = *mod; x.rwMutex", "x = *mod; x.parent", "x = *mod; [x.values]", "x = *mod; x.values.v", "x = *mod; for k, v in x.values { [v] }", "x = *mod; throw x.externalLookup",
		"(*mod).values", "b = [*mod]; b[0].values", "b = *mod; b.rwMutex.Lock()", "make(type E, *mod); e = make([]E, 1); e[0].values", "x = make(type T, 1); x.t", "x = make(type T, 1); x.t.Size_ = 100",
		"x = make(type T, \"\"); x.t.Equal(nil, nil)", "x = make(type T, 1); *x.t.GCData", "x = make(type T, 1); y = *x; y.t.Str", "go func() { x = make(type T, 1); [x.t] }(); hzero()",
		"try { throw 1 } catch e { x = make(type U, e); m = x.Method(0); m.Func.ptr }", "try { throw 1 } catch e { e.Message }", "try { throw 1 } catch e { x = *e; x.message }", "pt.a", "x = *pt; x.hidden",
		// entries deleted while the map is being ranged over; values that refer to themselves; comparisons of uncomparable contents
		"m = {\"a\": 1, \"b\": 2}; for k, v in m { delete(m, \"a\"); delete(m, \"b\"); x = v }", "m = {\"a\": 1, \"b\": 2}; for k, v in m { delete(m, \"a\"); delete(m, \"b\"); [v] }",
		"m = {\"a\": 1, \"b\": 2}; for k, v in m { delete(m, \"a\"); delete(m, \"b\"); v == 1 }", "m = map[string]int64{\"a\": 1, \"b\": 2}; for k, v in m { delete(m, \"a\"); delete(m, \"b\"); probe(v) }",
		"m = {\"a\": 1, \"b\": 2}; r = []; for k, v in m { m = {}; r += v }", "m = {1: 1, 2: 2, 3: 3}; for k, v in m { for j in [1, 2, 3] { delete(m, j) }; &v }",
		"x = nil; p = &x; *p = p; if p { 1 }", "x = nil; p = &x; *p = p; p + 1", "x = nil; p = &x; *p = p; [1, 2][p]", "x = nil; p = &x; *p = p; p == p", "x = nil; p = &x; *p = p; for p { break }",
		"x = nil; p = &x; *p = p; \"a\" * p", "x = nil; p = &x; *p = p; p ? 1 : 2", "x = nil; p = &x; *p = p; make([]int64, p)", "x = nil; p = &x; *p = p; !p",
		"x = [1, 2]; p = &x; p == p", "a = make(struct{A interface}); a.A = [1]; b = a; a == b", "a = make(struct{A interface}); a.A = {}; a in [a]",
		"a = make(struct{A interface}); a.A = func() { }; switch a {\ncase a: 1\n}", "f = func() { }; p = &f; p == p", "m = {}; p = &m; [p] == [p]",
		// several targets, one right-hand side that is an empty or too short list
		"a, b = []", "var a, b = []", "a, b, c = make([]int64, 0)", "x = [1, 2]; a, b = x[2:]", "func f() { return [] }; a, b = f()", "a, b = keys({})", "a, b, c = [1]",
		"var a, b, c = [nil]", "a, b = \"\"", "a, b = nothing", "a[0], b = []", "list[0], list[9] = [1, 2]", "a, b = list[3:3]", "if true { a, b = [] }", "try { var a, b = [] } catch e { }",
		"ch <- ch", "ch2 = make(chan int64); ch2 <- \"s\"", "x, ok = <- nothing", "x, ok = <- ch", "for x in ch { break }", "go probe(1)", "go nothing()", "go n", "go mod.v()",
	}
}

func c01Main(seed uint64, n int, outDir string, self string) error {
	rnd := NewRand(seed, "c01")
	var progs []c01Prog
	for _, s := range c01Degenerate() {
		progs = append(progs, c01Prog{s, "degenerate"})
	}
	// every degenerate form also inside a function body, a try, a loop and after a defer
	for _, s := range c01Degenerate() {
		switch rnd.Intn(4) {
		case 0:
			progs = append(progs, c01Prog{"func w() { " + s + " }\nw()", "degenerate-in-func"})
		case 1:
			progs = append(progs, c01Prog{"try { " + s + " } catch e { e }", "degenerate-in-try"})
		case 2:
			progs = append(progs, c01Prog{"for i in [1, 2] { " + s + " }", "degenerate-in-loop"})
		default:
			progs = append(progs, c01Prog{"x = (func() { " + s + " }()) ?? 1", "degenerate-in-coalesce"})
		}
	}
	// every degenerate form again with its operands obtained through an element, a map entry or a Go
	// function declared interface{} (the guards must not depend on the operand's provenance)
	provNames := []string{"list", "dict", "nothing", "n", "str", "ints", "strs", "ch", "pt", "nilptrs", "fl", "mod", "probe"}
	hops := []func(string) string{
		func(x string) string { return "[" + x + "][0]" },
		func(x string) string { return "hid(" + x + ")" },
		func(x string) string { return "{\"k\": " + x + "}.k" },
	}
	for _, s := range c01Degenerate() {
		for hi, hop := range hops {
			v := s
			for _, nm := range provNames {
				v = replaceIdent(v, nm, "\x00"+nm+"\x01")
			}
			if v == s {
				continue
			}
			for _, nm := range provNames {
				v = strings.ReplaceAll(v, "\x00"+nm+"\x01", hop(nm))
			}
			progs = append(progs, c01Prog{v, fmt.Sprintf("degenerate-provenance-%d", hi)})
		}
	}
	// the Go boundary: every boundary function with every value of the pool, as the only argument, spread, and as a second argument
	{
		var names []string
		for name := range c01BoundaryFuncs {
			names = append(names, name)
		}
		sort.Strings(names)
		for _, f := range names {
			for _, v := range c01BoundaryValues {
				progs = append(progs, c01Prog{f + "(" + v + ")", "boundary"})
				progs = append(progs, c01Prog{"x = " + v + "\n" + f + "(x...)", "boundary-spread"})
				if f == "b_var" || f == "b_iface" {
					progs = append(progs, c01Prog{f + "(1, " + v + ")", "boundary-tail"}, c01Prog{f + "(1, " + v + ", " + v + ")", "boundary-tail"}, c01Prog{"x = " + v + "\n" + f + "(1, x...)", "boundary-tail-spread"})
				}
			}
		}
	}
	// every Go number kind a script can make, under every operator against the usual operands, at top level (no call-site
	// recover stands between a reflect panic and the host there)
	for _, k := range []string{"uint", "uint8", "uint16", "uint32", "uint64", "int", "int8", "int16", "int32", "float32", "byte"} {
		mk := "v = func() { a = make([]" + k + ", 1); a[0] = 3; return a[0] }()\n"
		if k == "byte" {
			mk = "v = func() { a = make([]byte, 2); a[0] = 200; return a[0] }()\n"
		}
		for _, op := range []string{"+", "-", "*", "/", "%", "==", "!=", "<", "<=", ">", ">=", "&", "|", "**", "<<", ">>", "&&", "||"} {
			for _, o := range []string{"1", "1.5", "\"2\"", "nil", "v", "-1"} {
				progs = append(progs, c01Prog{mk + "v " + op + " " + o, "number-kinds"}, c01Prog{mk + o + " " + op + " v", "number-kinds"})
			}
		}
		for _, form := range []string{"-v", "!v", "^v", "v++; v", "v--; v", "v += 1; v", "v in [3, 200]", "3 in [v]", "[7, 8, 9, 10][v]", "[7, 8, 9, 10][0:v]", "make([]int64, v)", "\"s\" * v",
			"switch v {\ncase 3: 1\ncase 200: 2\n}", "switch 3 {\ncase v: 1\n}", "v ? 1 : 2", "for v { break }", "if v { 1 }", "{v: 1}[v]", "\"s\" + v", "v + \"s\"", "toString(v)", "len(v)",
			"b = make([]" + k + ", 2); b[0] <= b[1]", "for c in make([]" + k + ", 3) { if c > 0 { } }", "make(" + k + ") < 1", "a = make([]" + k + ", 1); a[0] = -1; a[0]", "a = make([]" + k + ", 1); a[0] = 1e30; a[0]"} {
			progs = append(progs, c01Prog{mk + form, "number-kinds"})
		}
	}
	envNames := []string{"n", "fl", "str", "t", "nothing", "list", "dict", "ints", "strs", "ch", "nilptrs", "pt", "arr", "arrs", "parr", "add", "cat", "boom", "boomv", "mod", "probe", "hvar"}
	for len(progs) < n {
		switch rnd.Intn(10) {
		case 0, 1, 2, 3, 4:
			// grammar-directed programs over all node kinds; identifiers mapped onto the environment's values
			g := newSrcGen(rnd.Fork("p"))
			src := g.program(1 + rnd.Intn(3))
			for i, id := range srcIdents {
				if rnd.Chance(2, 3) {
					src = replaceIdent(src, id, envNames[(i*7+rnd.Intn(len(envNames)))%len(envNames)])
				}
			}
			progs = append(progs, c01Prog{src, "grammar"})
		case 5, 6:
			g := newSemGen(rnd.Fork("s"), "sem")
			progs = append(progs, c01Prog{g.program(), "semantic"})
		case 7, 8:
			// byte-level mutation of a valid program
			g := newSrcGen(rnd.Fork("m"))
			b := []byte(g.program(2))
			for k := 0; k < 1+rnd.Intn(4) && len(b) > 0; k++ {
				i := rnd.Intn(len(b))
				switch rnd.Intn(4) {
				case 0:
					b[i] = byte(rnd.Intn(256))
				case 1:
					b = append(b[:i], b[i+1:]...)
				case 2:
					b = append(b[:i], append([]byte{"(){}[]\"`'\\\n;,.:?=+-*/<>!&|%^#0x"[rnd.Intn(31)]}, b[i:]...)...)
				default:
					b = b[:i]
				}
			}
			progs = append(progs, c01Prog{string(b), "mutated"})
		default:
			l := rnd.Intn(40)
			b := make([]byte, l)
			for i := range b {
				b[i] = byte(rnd.Intn(256))
			}
			progs = append(progs, c01Prog{string(b), "random-bytes"})
		}
	}
	results := make([]c01Result, len(progs))
	for i, p := range progs {
		results[i] = c01Result{Src: p.Src, Stream: p.Stream, Status: "not-run"}
	}
	// run in children, restarting after a crash with the remaining programs
	next := 0
	crashes := 0
	for next < len(progs) && crashes < 400 {
		batch := filepath.Join(outDir, "batch.jsonl")
		bf, err := os.Create(batch)
		if err != nil {
			return err
		}
		enc := json.NewEncoder(bf)
		for _, p := range progs[next:] {
			enc.Encode(p)
		}
		bf.Close()
		cmd := exec.Command("bash", "-c", "ulimit -v 6000000; exec \"$0\" c01child -replay \"$1\"", self, batch)
		stdout, _ := cmd.StdoutPipe()
		var stderr strings.Builder
		cmd.Stderr = &stderr
		if err := cmd.Start(); err != nil {
			return err
		}
		sc := bufio.NewScanner(stdout)
		sc.Buffer(make([]byte, 1<<20), 1<<24)
		inflight := -1
		for sc.Scan() {
			line := sc.Text()
			var i int
			if strings.HasPrefix(line, "START ") {
				fmt.Sscanf(line, "START %d", &i)
				inflight = next + i
			} else if strings.HasPrefix(line, "DONE ") {
				parts := strings.SplitN(line, " ", 4)
				fmt.Sscanf(parts[1], "%d", &i)
				results[next+i].Status = parts[2]
				if len(parts) > 3 {
					results[next+i].Msg = parts[3]
				}
				inflight = -1
				if parts[2] == "timeout" {
					inflight = next + i // the child leaves after a timeout
				}
			}
		}
		werr := cmd.Wait()
		if werr == nil {
			break // the child ran every remaining program
		}
		crashes++
		if inflight < 0 {
			// died between programs (a goroutine of an earlier script): blame the last completed one
			inflight = next
			for j := len(results) - 1; j >= next; j-- {
				if results[j].Status != "not-run" {
					inflight = j
					break
				}
			}
		}
		if results[inflight].Status != "timeout" {
			results[inflight].Status = "crash"
			msg := stderr.String()
			if len(msg) > 600 {
				msg = msg[:600]
			}
			results[inflight].Msg = strings.ReplaceAll(msg, "\n", " | ")
		}
		next = inflight + 1
	}
	f, err := os.Create(filepath.Join(outDir, "results.jsonl"))
	if err != nil {
		return err
	}
	defer f.Close()
	enc := json.NewEncoder(f)
	stats := map[string]int{}
	for _, r := range results {
		enc.Encode(r)
		stats[r.Stream+":"+r.Status]++
	}
	mb, _ := json.MarshalIndent(map[string]interface{}{"programs": len(progs), "stats": stats, "child_restarts": crashes}, "", " ")
	return os.WriteFile(filepath.Join(outDir, "meta.json"), mb, 0o644)
}

func replaceIdent(src, from, to string) string {
	var b strings.Builder
	isId := func(c byte) bool { return c == '_' || (c >= 'a' && c <= 'z') || (c >= 'A' && c <= 'Z') || (c >= '0' && c <= '9') }
	for i := 0; i < len(src); {
		if strings.HasPrefix(src[i:], from) && (i == 0 || !isId(src[i-1])) && (i+len(from) == len(src) || !isId(src[i+len(from)])) {
			b.WriteString(to)
			i += len(from)
			continue
		}
		b.WriteByte(src[i])
		i++
	}
	return b.String()
}
