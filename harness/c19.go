package main

// C19: core builtins and bundled package tables agree with their Go counterparts.

import (
	"math/big"
	"net"
	"encoding/json"
	"fmt"
	"go/ast"
	"go/build"
	"go/parser"
	"go/token"
	"math"
	"os"
	"os/exec"
	"path/filepath"
	"reflect"
	"runtime"
	"sort"
	"strconv"
	"strings"
	"time"

	"github.com/mattn/anko/core"
	"github.com/mattn/anko/env"
	_ "github.com/mattn/anko/packages"
	"github.com/mattn/anko/vm"
)

type pkgEntry struct {
	Table string `json:"table"` // Packages or PackageTypes
	Pkg   string `json:"pkg"`   // key of the outer map, e.g. "net/http"
	Key   string `json:"key"`
	Qual  string `json:"qual"`  // package qualifier in the Go expression, "" for local identifiers
	Ident string `json:"ident"` // selected identifier
	Path  string `json:"path"`  // import path the qualifier resolves to
	File  string `json:"file"`
	Form  string `json:"form"` // shape of the Go expression
}

// value expression -> (qualifier, identifier, form)
func entryExpr(e ast.Expr) (string, string, string) {
	// reflect.ValueOf(X) / reflect.TypeOf(X)
	call, ok := e.(*ast.CallExpr)
	if ok && len(call.Args) == 0 { // reflect.TypeOf((*T)(nil)).Elem()
		if sel, ok2 := call.Fun.(*ast.SelectorExpr); ok2 && sel.Sel.Name == "Elem" {
			q, id, _ := entryExpr(sel.X)
			return q, id, "elem"
		}
	}
	if !ok || len(call.Args) != 1 {
		return "", "", "other"
	}
	arg := call.Args[0]
	form := "value"
	// unwrap &x, x{}, *new(x), (*x)(nil), reflect.TypeOf(&x).Elem() ...
	for {
		switch a := arg.(type) {
		case *ast.UnaryExpr:
			arg = a.X
			form = "addr"
			continue
		case *ast.CompositeLit:
			arg = a.Type
			form = "lit"
			continue
		case *ast.ParenExpr:
			arg = a.X
			continue
		case *ast.StarExpr:
			arg = a.X
			form = "ptr"
			continue
		case *ast.CallExpr:
			if len(a.Args) == 1 {
				// conversion T(x) or (*T)(nil)
				arg = a.Fun
				form = "conv"
				continue
			}
		}
		break
	}
	switch a := arg.(type) {
	case *ast.SelectorExpr:
		if id, ok := a.X.(*ast.Ident); ok {
			return id.Name, a.Sel.Name, form
		}
	case *ast.Ident:
		return "", a.Name, form
	}
	return "", "", "other"
}

func genPkgEntries(repo string) ([]pkgEntry, error) {
	dir := filepath.Join(repo, "packages")
	bp, err := build.Default.ImportDir(dir, 0)
	if err != nil {
		return nil, err
	}
	fset := token.NewFileSet()
	var out []pkgEntry
	files := append([]string{}, bp.GoFiles...)
	sort.Strings(files)
	for _, fn := range files {
		f, err := parser.ParseFile(fset, filepath.Join(dir, fn), nil, 0)
		if err != nil {
			return nil, err
		}
		imports := map[string]string{}
		for _, im := range f.Imports {
			p, _ := strconv.Unquote(im.Path.Value)
			name := p[strings.LastIndex(p, "/")+1:]
			if im.Name != nil {
				name = im.Name.Name
			}
			imports[name] = p
		}
		// local variables with a declared type: `var signal os.Signal` ... reflect.TypeOf(&signal).Elem()
		localVars := map[string][2]string{}
		ast.Inspect(f, func(n ast.Node) bool {
			if gd, ok := n.(*ast.GenDecl); ok && gd.Tok == token.VAR {
				for _, sp := range gd.Specs {
					if vs, ok := sp.(*ast.ValueSpec); ok && vs.Type != nil {
						if sel, ok := vs.Type.(*ast.SelectorExpr); ok {
							if q, ok := sel.X.(*ast.Ident); ok {
								for _, nm := range vs.Names {
									localVars[nm.Name] = [2]string{q.Name, sel.Sel.Name}
								}
							}
						}
					}
				}
			}
			return true
		})
		add := func(table, pkg, key string, val ast.Expr) {
			q, id, form := entryExpr(val)
			if lv, ok := localVars[id]; ok && q == "" {
				q, id, form = lv[0], lv[1], "typed-var"
			}
			out = append(out, pkgEntry{Table: table, Pkg: pkg, Key: key, Qual: q, Ident: id, Path: imports[q], File: fn, Form: form})
		}
		ast.Inspect(f, func(n ast.Node) bool {
			as, ok := n.(*ast.AssignStmt)
			if !ok || len(as.Lhs) != 1 || len(as.Rhs) != 1 {
				return true
			}
			// env.Packages["p"] = map[string]reflect.Value{...}   or   env.Packages["p"]["K"] = v
			ix, ok := as.Lhs[0].(*ast.IndexExpr)
			if !ok {
				return true
			}
			tableOf := func(e ast.Expr) string {
				if s, ok := e.(*ast.SelectorExpr); ok {
					if id, ok := s.X.(*ast.Ident); ok && id.Name == "env" && (s.Sel.Name == "Packages" || s.Sel.Name == "PackageTypes") {
						return s.Sel.Name
					}
				}
				return ""
			}
			strLit := func(e ast.Expr) string {
				if b, ok := e.(*ast.BasicLit); ok && b.Kind == token.STRING {
					s, _ := strconv.Unquote(b.Value)
					return s
				}
				return ""
			}
			if t := tableOf(ix.X); t != "" {
				pkg := strLit(ix.Index)
				if cl, ok := as.Rhs[0].(*ast.CompositeLit); ok {
					for _, el := range cl.Elts {
						if kv, ok := el.(*ast.KeyValueExpr); ok {
							add(t, pkg, strLit(kv.Key), kv.Value)
						}
					}
				}
				return true
			}
			if ix2, ok := ix.X.(*ast.IndexExpr); ok {
				if t := tableOf(ix2.X); t != "" {
					add(t, strLit(ix2.Index), strLit(ix.Index), as.Rhs[0])
				}
			}
			return true
		})
	}
	return out, nil
}

// dynamic identity of the table entries of the running binary
type pkgDyn struct {
	Pkg, Key, Kind, Name string
	OK                   bool
}

func dynPkgEntries() []pkgDyn {
	var out []pkgDyn
	var pkgs []string
	for p := range env.Packages {
		pkgs = append(pkgs, p)
	}
	sort.Strings(pkgs)
	for _, p := range pkgs {
		var keys []string
		for k := range env.Packages[p] {
			keys = append(keys, k)
		}
		sort.Strings(keys)
		for _, k := range keys {
			v := env.Packages[p][k]
			d := pkgDyn{Pkg: p, Key: k, Kind: v.Kind().String(), OK: true}
			if v.Kind() == reflect.Func && !v.IsNil() {
				fn := runtime.FuncForPC(v.Pointer())
				if fn != nil {
					d.Name = fn.Name()
					// "strings.ToUpper", "net/http.Get", methods "os.(*File).Close-fm" are not in tables
					last := d.Name[strings.LastIndex(d.Name, "/")+1:]
					want := p[strings.LastIndex(p, "/")+1:] + "." + k
					// a package-level func variable (flag.Usage) points at a closure "pkg.init.funcN"/"pkg.glob..funcN"
					d.OK = last == want || strings.HasSuffix(d.Name, "."+k) || strings.HasPrefix(last, "packages.") ||
						strings.Contains(last, ".init") || strings.Contains(last, ".glob.") || strings.Contains(last, ".func")
					if strings.HasPrefix(last, "packages.") {
						d.Kind = "func-local"
					}
				}
			}
			out = append(out, d)
		}
		var tkeys []string
		for k := range env.PackageTypes[p] {
			tkeys = append(tkeys, k)
		}
		sort.Strings(tkeys)
		for _, k := range tkeys {
			t := env.PackageTypes[p][k]
			name := ""
			if t != nil {
				name = t.Name()
				if t.Kind() == reflect.Ptr && name == "" {
					name = t.Elem().Name()
				}
			}
			out = append(out, pkgDyn{Pkg: p, Key: k, Kind: "type", Name: name, OK: name == k || (t != nil && t.PkgPath() == "github.com/mattn/anko/packages")})
		}
	}
	return out
}

// ---- builtins against native Go ----
type c19Case struct {
	Src  string `json:"src"`
	Want string `json:"want"`
	Got  string `json:"got"`
	Why  string `json:"why"`
	Args []int64 `json:"args,omitempty"` // range cases: the argument list, for the Coq model
	Model  string `json:"model_in,omitempty"` // conversion cases: the input of model entry c19b
	Sorted bool   `json:"sorted,omitempty"`   // project the result with its elements sorted (keys)
}

func projAny(x interface{}) string {
	if x == nil {
		return "nil"
	}
	rv := reflect.ValueOf(x)
	switch rv.Kind() {
	case reflect.Slice:
		if rv.Type().Elem().Kind() == reflect.Uint8 {
			return fmt.Sprintf("%s:%x", rv.Type(), rv.Bytes())
		}
		var p []string
		for i := 0; i < rv.Len(); i++ {
			p = append(p, projAny(rv.Index(i).Interface()))
		}
		return rv.Type().String() + "[" + strings.Join(p, ",") + "]"
	case reflect.Float64, reflect.Float32:
		return fmt.Sprintf("%s:%x", rv.Type(), math.Float64bits(rv.Float()))
	case reflect.String:
		return fmt.Sprintf("%s:%x", rv.Type(), rv.String())
	}
	return fmt.Sprintf("%s:%v", rv.Type(), x)
}

func nativeRange(start, stop, step int64) []int64 {
	// the progression start, start+step, ... strictly before stop, computed without overflow
	out := []int64{}
	if step == 0 {
		return nil
	}
	if (step > 0 && start >= stop) || (step < 0 && start <= stop) {
		return out
	}
	var n uint64
	if step > 0 {
		n = (uint64(stop-start)-1)/uint64(step) + 1
	} else {
		n = (uint64(start-stop)-1)/uint64(-step) + 1
	}
	for i := uint64(0); i < n; i++ {
		out = append(out, start+int64(i)*step)
	}
	return out
}

func nativeToInt(v interface{}) int64 {
	switch x := v.(type) {
	case nil:
		return 0
	case int64:
		return x
	case float64:
		return int64(x)
	case bool:
		if x {
			return 1
		}
		return 0
	case string:
		if i, err := strconv.ParseInt(x, 10, 64); err == nil {
			return i
		}
		if f, err := strconv.ParseFloat(x, 64); err == nil {
			return int64(f)
		}
	}
	return 0
}

func nativeToFloat(v interface{}) float64 {
	switch x := v.(type) {
	case int64:
		return float64(x)
	case float64:
		return x
	case bool:
		if x {
			return 1
		}
	case string:
		if f, err := strconv.ParseFloat(x, 64); err == nil {
			return f
		}
	}
	return 0
}

type c19Named []byte
type c19Str string
type c19Stringer int64

func (c19Stringer) String() string { return "stringer!" }

// Go values a host may bind: the conversion builtins must treat them as Go does
func c19HostValues() map[string]interface{} {
	return map[string]interface{}{
		"hv_bytes": []byte("hi"), "hv_ip": net.ParseIP("192.168.0.1"), "hv_mac": net.HardwareAddr{0, 27, 68, 17, 58, 183}, "hv_named": c19Named("hi"),
		"hv_str": c19Str("named"), "hv_stringer": c19Stringer(7), "hv_dur": 1500 * time.Millisecond, "hv_err": fmt.Errorf("an error"), "hv_i8": int8(-5),
		"hv_u16": uint16(500), "hv_f32": float32(0.5), "hv_ints": []int64{1, 2}, "hv_strs": []string{"a", "b"}, "hv_map": map[string]int64{"k": 1}, "hv_ptr": new(int64),
		"hv_runes": []rune("hé"), "hv_nilbytes": []byte(nil), "hv_empty": []byte{},
		// values for which fmt does more than call String() / Error(): typed nil receivers, fmt.Formatter, reflect.Value
		"hv_nilstringer": (*c19PtrStr)(nil), "hv_nilerr": error((*c19PtrErr)(nil)), "hv_formatter": c19Fmt(3), "hv_reflect": reflect.ValueOf(int64(5)),
		"hv_bigfloat": big.NewFloat(1.0 / 3), "hv_bigint": big.NewInt(1 << 40), "hv_ptrstringer": &c19PtrStr{"p"}, "hv_gostringer": c19GoStr(2),
	}
}

type c19PtrStr struct{ s string }

func (p *c19PtrStr) String() string { return "ptr:" + p.s } // dereferences the receiver

type c19PtrErr struct{ s string }

func (p *c19PtrErr) Error() string { return "err:" + p.s }

// c19Fmt formats itself; its String method says something else
type c19Fmt int

func (f c19Fmt) Format(st fmt.State, verb rune) { fmt.Fprintf(st, "formatted<%d>", int(f)) }
func (f c19Fmt) String() string                 { return "stringer" }

type c19GoStr int

func (g c19GoStr) GoString() string { return "gostring" }

type litVal struct {
	src string
	val interface{}
}

func c19Universe() []litVal {
	return []litVal{
		{"nil", nil}, {"true", true}, {"false", false}, {"0", int64(0)}, {"7", int64(7)}, {"-3", int64(-3)},
		{"9223372036854775807", int64(math.MaxInt64)}, {"1.5", 1.5}, {"-2.75", -2.75}, {"1e300", 1e300}, {"0.0", 0.0},
		{`""`, ""}, {`"12"`, "12"}, {`"-7"`, "-7"}, {`"1.5"`, "1.5"}, {`"1e3"`, "1e3"}, {`"abc"`, "abc"}, {`" 5"`, " 5"}, {`"0x10"`, "0x10"},
		{`"true"`, "true"}, {`"9223372036854775808"`, "9223372036854775808"}, {`"é"`, "é"},
		{`"9007199254740993"`, "9007199254740993"}, {`"9223372036854775807"`, "9223372036854775807"}, {`"-9223372036854775808"`, "-9223372036854775808"},
		{`"1234567890123456789"`, "1234567890123456789"}, {`"+5"`, "+5"}, {`"007"`, "007"}, {`"1e18"`, "1e18"}, {`"-0"`, "-0"}, {`"0.1e1"`, "0.1e1"},
		{`"12abc"`, "12abc"}, {`"1 2"`, "1 2"}, {`"٣"`, "٣"}, {`"a\tb"`, "a\tb"},
		{"9007199254740993", int64(9007199254740993)}, {"4611686018427387905", int64(4611686018427387905)}, {"0.1", 0.1}, {"123456789.125", 123456789.125},
		{"2.5e-7", 2.5e-7}, {"100000000000000000000.0", 1e20}, {"-0.0", math.Copysign(0, -1)},
		{"[1, 2]", []interface{}{int64(1), int64(2)}}, {"[]", []interface{}{}}, {`{"a": 1}`, map[interface{}]interface{}{"a": int64(1)}},
	}
}

func c19Builtins(limit int, rnd *Rand) []c19Case {
	var cases []c19Case
	add := func(src, want, why string) { cases = append(cases, c19Case{Src: src, Want: want, Why: why}) }
	// range over boundary triples with bounded length
	edge := []int64{0, 1, -1, 2, 3, 5, 7, -5, 10, 100, math.MaxInt64, math.MaxInt64 - 1, math.MaxInt64 - 6, math.MinInt64, math.MinInt64 + 1, math.MinInt64 + 7, 1 << 62, -(1 << 62)}
	lit := func(x int64) string {
		if x == math.MinInt64 {
			return "(-9223372036854775807 - 1)"
		}
		return fmt.Sprint(x)
	}
	for _, a := range edge {
		for _, b := range edge {
			for _, s := range edge {
				if s == 0 {
					continue
				}
				// predicted length in exact arithmetic
				var n float64
				if s > 0 && a < b {
					n = (float64(b) - float64(a)) / float64(s)
				} else if s < 0 && a > b {
					n = (float64(a) - float64(b)) / float64(-s)
				}
				if n > 3000 {
					continue
				}
				if limit > 0 && !rnd.Chance(limit, 100) {
					continue
				}
				add(fmt.Sprintf("range(%s, %s, %s)", lit(a), lit(b), lit(s)), projAny(nativeRange(a, b, s)), "range = the arithmetic progression strictly before stop")
				cases[len(cases)-1].Args = []int64{a, b, s}
			}
		}
	}
	add("range(5)", projAny(nativeRange(0, 5, 1)), "range(stop)")
	cases[len(cases)-1].Args = []int64{5}
	add("range(2, 5)", projAny(nativeRange(2, 5, 1)), "range(start, stop)")
	cases[len(cases)-1].Args = []int64{2, 5}
	add("range(5, 2)", projAny([]int64{}), "empty when the step points away")
	cases[len(cases)-1].Args = []int64{5, 2}
	add("range(1, 5, 0)", "error", "zero step is an error")
	cases[len(cases)-1].Args = []int64{1, 5, 0}
	add("range(1, 2, 3, 4)", "error", "wrong argument count is an error")
	cases[len(cases)-1].Args = []int64{1, 2, 3, 4}
	add("range()", "error", "wrong argument count is an error")
	add("range(\"a\")", "error", "wrong argument type is an error")
	// conversions over the value universe
	for _, u := range c19Universe() {
		add("toInt("+u.src+")", projAny(nativeToInt(u.val)), "toInt: Go conversion / strconv parsing, 0 otherwise")
		add("toFloat("+u.src+")", projAny(nativeToFloat(u.val)), "toFloat: Go conversion / strconv parsing, 0 otherwise")
		add("toString("+u.src+")", projAny(fmt.Sprint(u.val)), "toString: Go default formatting")
		add("typeOf("+u.src+")", projAny(func() string {
			if u.val == nil {
				return "nil"
			}
			return reflect.TypeOf(u.val).String()
		}()), "typeOf: Go type name")
		add("kindOf("+u.src+")", projAny(func() string {
			if u.val == nil {
				return "nil"
			}
			return reflect.TypeOf(u.val).Kind().String()
		}()), "kindOf: Go kind name")
		switch x := u.val.(type) {
		case string:
			add("len("+u.src+")", projAny(int64(len(x))), "len: Go length")
			add("toByteSlice("+u.src+")", projAny([]byte(x)), "toByteSlice")
			add("toRuneSlice("+u.src+")", projAny([]rune(x)), "toRuneSlice")
			add("toString(toByteSlice("+u.src+"))", projAny(x), "byte slice back to string")
			if len(x) > 0 {
				add("toRune("+u.src+")", projAny([]rune(x)[0]), "toRune")
			} else {
				add("toRune("+u.src+")", projAny(rune(0)), "toRune of empty string")
			}
		case []interface{}:
			add("len("+u.src+")", projAny(int64(len(x))), "len: Go length")
		case map[interface{}]interface{}:
			add("len("+u.src+")", projAny(int64(len(x))), "len: Go length")
		}
	}
	hv := c19HostValues()
	var hnames []string
	for n := range hv {
		hnames = append(hnames, n)
	}
	sort.Strings(hnames)
	for _, n := range hnames {
		v := hv[n]
		want := fmt.Sprint(v)
		if b, ok := v.([]byte); ok {
			want = string(b)
		}
		if n != "hv_ptr" { // a pointer prints its address
			add("toString("+n+")", projAny(want), "toString of a Go value: Go's default formatting (the string itself for []byte only)")
		}
		add("typeOf("+n+")", projAny(reflect.TypeOf(v).String()), "typeOf: Go type name of a Go value")
		add("kindOf("+n+")", projAny(reflect.TypeOf(v).Kind().String()), "kindOf: Go kind name of a Go value")
		rv := reflect.ValueOf(v)
		switch rv.Kind() {
		case reflect.Slice, reflect.Map, reflect.String:
			add("len("+n+")", projAny(int64(rv.Len())), "len of a Go value")
		}
		if rv.Type().ConvertibleTo(reflect.TypeOf(int64(0))) && rv.Kind() != reflect.String {
			add("toInt("+n+")", projAny(rv.Convert(reflect.TypeOf(int(0))).Int()), "toInt of a Go number: Go's conversion")
			add("toFloat("+n+")", projAny(rv.Convert(reflect.TypeOf(float64(0))).Float()), "toFloat of a Go number: Go's conversion")
		}
	}
	add("toChar(65)", projAny("A"), "toChar")
	add("toChar(233)", projAny("é"), "toChar")
	add("toIntSlice([1, 2.5, \"x\", nil, true])", projAny([]int64{1, 2, 0, 0, 0}), "typed slice: element-wise, zero for unconvertible")
	add("toFloatSlice([1, 2.5, \"x\", nil])", projAny([]float64{1, 2.5, 0, 0}), "typed slice: element-wise")
	add("toStringSlice([\"a\", 1, nil])", projAny([]string{"a", "\x01", ""}), "typed slice: Go conversion int->string is a rune")
	add("toBoolSlice([true, 1, nil])", projAny([]bool{true, false, false}), "typed slice")
	add("x = keys({\"a\": 1, \"b\": 2, 3: 4}); len(x)", projAny(int64(3)), "keys: every key")
	add("m = {\"a\": 1, \"b\": 2}; k = keys(m); n = 0; for x in k { if m[x] != nil { n++ } }; n", projAny(int64(2)), "keys: every key exactly once")
	add("keys(1)", "error", "misuse is an error, never a crash")
	add("keys()", "error", "misuse is an error")
	add("toInt()", "error", "misuse is an error")
	add("toRune(1)", projAny(rune(1)), "toRune of an int converts as Go does")
	add("len(1)", "error", "len of a number is an error")
	add("kindOf(1, 2)", "error", "wrong count")
	return cases
}

// c19Child runs cases[start:] sequentially, appending one projected result per line; a case that
// does not return within 3 s or drives the heap past 1 GiB is reported as RUNAWAY and the process
// exits with status 3 (a Go builtin loop cannot be interrupted) so that the parent can resume.
func c19Child(casesFile, outFile string, start int) error {
	b, err := os.ReadFile(casesFile)
	if err != nil {
		return err
	}
	var cases []c19Case
	if err := json.Unmarshal(b, &cases); err != nil {
		return err
	}
	f, err := os.OpenFile(outFile, os.O_APPEND|os.O_CREATE|os.O_WRONLY, 0o644)
	if err != nil {
		return err
	}
	defer f.Close()
	e := core.Import(env.NewEnv())
	for name, v := range c19HostValues() {
		e.Define(name, v)
	}
	for i := start; i < len(cases); i++ {
		done := make(chan string, 1)
		go func(src string, sorted bool) {
			defer func() {
				if p := recover(); p != nil {
					done <- "PANIC " + strings.ReplaceAll(fmt.Sprint(p), "\n", " ")
				}
			}()
			v, err := vm.Execute(e, nil, src)
			if err != nil {
				done <- "error"
				return
			}
			if sorted {
				done <- projSorted(v)
				return
			}
			done <- projAny(v)
		}(cases[i].Src, cases[i].Sorted)
		deadline := time.Now().Add(3 * time.Second)
		res := ""
		for res == "" {
			select {
			case res = <-done:
			case <-time.After(2 * time.Millisecond):
				var ms runtime.MemStats
				runtime.ReadMemStats(&ms)
				if ms.HeapAlloc > 1<<30 || time.Now().After(deadline) {
					fmt.Fprintf(f, "%d RUNAWAY\n", i)
					f.Close()
					os.Exit(3)
				}
			}
		}
		fmt.Fprintf(f, "%d %s\n", i, res)
	}
	return nil
}

func c19Main(seed uint64, n int, outDir, repo string) error {
	entries, err := genPkgEntries(repo)
	if err != nil {
		return err
	}
	if err := os.MkdirAll(filepath.Join(outDir, "AnkoGen"), 0o755); err != nil {
		return err
	}
	var sb strings.Builder
	sb.WriteString("(* Regenerated on every run by harness/c19.go from " + repo + "/packages/*.go (go/ast, files active for this toolchain). *)\n")
	sb.WriteString("From Coq Require Import String List.\nFrom Anko Require Import Core.PkgTables.\nImport ListNotations.\nOpen Scope string_scope.\n")
	sb.WriteString("Definition entries : list entry := [\n")
	for i, e := range entries {
		sep := ";"
		if i == len(entries)-1 {
			sep = ""
		}
		fmt.Fprintf(&sb, "  mkEntry %s %s %s %s %s %s%s\n", coqStr(e.Table), coqStr(e.Pkg), coqStr(e.Key), coqStr(e.Qual), coqStr(e.Ident), coqStr(e.Path), sep)
	}
	sb.WriteString("].\n")
	if err := os.WriteFile(filepath.Join(outDir, "AnkoGen", "GenPkgs.v"), []byte(sb.String()), 0o644); err != nil {
		return err
	}
	limit := 12
	if n > 5000 {
		limit = 0
	}
	cases := c19Builtins(limit, NewRand(seed, "c19"))
	cases = append(cases, c19bCases(n, NewRand(seed, "c19b"))...)
	cb, _ := json.Marshal(cases)
	casesFile := filepath.Join(outDir, "cases.json")
	resFile := filepath.Join(outDir, "results.txt")
	os.Remove(resFile)
	if err := os.WriteFile(casesFile, cb, 0o644); err != nil {
		return err
	}
	self, _ := os.Executable()
	for start := 0; start < len(cases); {
		cmd := exec.Command(self, "c19child", "-replay", casesFile, "-out", resFile, "-n", fmt.Sprint(start))
		cmd.Stderr = os.Stderr
		cmd.Run()
		rb, _ := os.ReadFile(resFile)
		lines := strings.Split(strings.TrimSpace(string(rb)), "\n")
		got := 0
		for _, l := range lines {
			sp := strings.SplitN(l, " ", 2)
			if len(sp) == 2 {
				if ix, err := strconv.Atoi(sp[0]); err == nil && ix < len(cases) {
					cases[ix].Got = sp[1]
					if ix+1 > got {
						got = ix + 1
					}
				}
			}
		}
		if got <= start { // the child died without reporting: blame the case it was on
			cases[start].Got = "CRASH"
			got = start + 1
		}
		start = got
	}
	meta := map[string]interface{}{"entries": entries, "dynamic": dynPkgEntries(), "cases": cases}
	mb, _ := json.Marshal(meta)
	return os.WriteFile(filepath.Join(outDir, "meta.json"), mb, 0o644)
}
