package main

import (
	"fmt"
	"strings"
)

// S-expression text understood by ocaml/driver.ml.
func sxStr(s string) string {
	var b strings.Builder
	b.WriteByte('"')
	for _, c := range []byte(s) {
		switch {
		case c == '"' || c == '\\':
			b.WriteByte('\\')
			b.WriteByte(c)
		case c < 32 || c > 126:
			fmt.Fprintf(&b, "\\x%02x", c)
		default:
			b.WriteByte(c)
		}
	}
	b.WriteByte('"')
	return b.String()
}

func sxList(items ...string) string { return "(" + strings.Join(items, " ") + ")" }

func sxInt(n int) string { return fmt.Sprint(n) }

func sxBool(b bool) string {
	if b {
		return "true"
	}
	return "false"
}

func sxOptInt(x int) string {
	if x < 0 {
		return "()"
	}
	return fmt.Sprintf("(%d)", x)
}
