package main

// C17: the AST walker reaches every node.  The walker's visit table is
// obtained behaviourally (marker children under every field of every node
// kind, real astutil.Walk with a recording callback) and written both as a Coq
// file (obligation: the table covers the AST's child fields) and as part of
// every correspondence case.

import (
	"encoding/json"
	"context"
	"errors"
	"io"
	"fmt"
	"os"
	"path/filepath"
	"reflect"
	"runtime"
	"sort"
	"strings"

	anko "github.com/mattn/anko/ast"
	"github.com/mattn/anko/ast/astutil"
	"github.com/mattn/anko/parser"
)

type walkEntry struct {
	Kind    int      `json:"kind"`
	Name    string   `json:"name"`
	NFields int      `json:"nfields"`
	Status  string   `json:"status"` // ok unknown irregular panic
	Acts    []string `json:"acts"`   // "F i", "Z i j", "X"
	Seq     []string `json:"seq"`    // raw observation, for the replay
	Err     string   `json:"err,omitempty"`
}

func markerFor(kind astKind, f astField) interface{} {
	if kind.Name == "SwitchStmt" && f.Name == "Cases" {
		return &anko.SwitchCaseStmt{}
	}
	switch f.Class {
	case "Expr":
		return &anko.IdentExpr{Lit: "marker"}
	case "Stmt":
		return &anko.BreakStmt{}
	}
	return &anko.BinaryOperator{}
}

func probeWalkTable() []walkEntry {
	var table []walkEntry
	for ki, k := range astKinds {
		ent := walkEntry{Kind: ki, Name: k.Name, NFields: len(k.Fields), Status: "ok"}
		node := reflect.New(k.Type)
		marks := map[interface{}]string{}
		for fi, f := range k.Fields {
			fv := node.Elem().Field(f.Index)
			if f.Slice {
				s := reflect.MakeSlice(fv.Type(), 0, 2)
				for j := 0; j < 2; j++ {
					m := markerFor(k, f)
					marks[m] = fmt.Sprintf("%d.%d", fi, j)
					s = reflect.Append(s, reflect.ValueOf(m))
				}
				fv.Set(s)
			} else {
				m := markerFor(k, f)
				marks[m] = fmt.Sprintf("%d.0", fi)
				fv.Set(reflect.ValueOf(m))
			}
		}
		root := node.Interface()
		var seq []string
		var err error
		func() {
			defer func() {
				if p := recover(); p != nil {
					ent.Status = "panic"
					ent.Err = fmt.Sprint(p)
				}
			}()
			var st anko.Stmt
			var isStmt bool
			// Walk takes a statement; expressions and operators are wrapped
			switch k.Class {
			case "Stmt":
				st, isStmt = root.(anko.Stmt), true
			}
			if k.Name == "DeleteStmt" || k.Name == "ChanStmt" { // declared with ExprImpl but used as statements
				st, isStmt = root.(anko.Stmt), true
			}
			wrapDepth := 0
			if !isStmt {
				if k.Class == "Operator" {
					st = &anko.ExprStmt{Expr: &anko.OpExpr{Op: root.(anko.Operator)}}
					wrapDepth = 2
				} else {
					st = &anko.ExprStmt{Expr: root.(anko.Expr)}
					wrapDepth = 1
				}
			}
			n := 0
			err = astutil.Walk(st, func(x interface{}) error {
				n++
				if n <= wrapDepth {
					return nil
				}
				if x == root {
					seq = append(seq, "root")
				} else if m, ok := marks[x]; ok {
					seq = append(seq, m)
				} else {
					seq = append(seq, "X")
				}
				return nil
			})
		}()
		ent.Seq = seq
		if ent.Status == "panic" {
			table = append(table, ent)
			continue
		}
		if err != nil {
			ent.Status = "unknown"
			ent.Err = err.Error()
			table = append(table, ent)
			continue
		}
		if len(seq) == 0 || seq[0] != "root" {
			ent.Status = "irregular"
			table = append(table, ent)
			continue
		}
		rest := seq[1:]
		slice := func(fi int) bool { return k.Fields[fi].Slice }
		var fi, fj, a, b int
		for p := 0; p < len(rest) && ent.Status == "ok"; {
			if rest[p] == "X" {
				ent.Acts = append(ent.Acts, "X")
				p++
				continue
			}
			if rest[p] == "root" {
				ent.Status = "irregular"
				break
			}
			fmt.Sscanf(rest[p], "%d.%d", &fi, &a)
			if a != 0 {
				ent.Status = "irregular"
				break
			}
			if !slice(fi) {
				ent.Acts = append(ent.Acts, fmt.Sprintf("F %d", fi))
				p++
				continue
			}
			if p+1 < len(rest) && rest[p+1] == fmt.Sprintf("%d.1", fi) {
				ent.Acts = append(ent.Acts, fmt.Sprintf("F %d", fi))
				p += 2
				continue
			}
			if p+3 < len(rest) && rest[p+1] != "X" {
				fmt.Sscanf(rest[p+1], "%d.%d", &fj, &b)
				if b == 0 && fj != fi && slice(fj) && rest[p+2] == fmt.Sprintf("%d.1", fi) && rest[p+3] == fmt.Sprintf("%d.1", fj) {
					ent.Acts = append(ent.Acts, fmt.Sprintf("Z %d %d", fi, fj))
					p += 4
					continue
				}
			}
			ent.Status = "irregular"
		}
		table = append(table, ent)
	}
	return table
}

func walkTableCoq(table []walkEntry) string {
	var b strings.Builder
	b.WriteString("(* Regenerated on every run by harness/c17.go from the working tree:\n")
	b.WriteString("   ast_table from the struct definitions of package ast (reflection, cross-checked with go/ast),\n")
	b.WriteString("   walk_table by probing the real astutil.Walk with marker children. *)\n")
	b.WriteString("From Coq Require Import List.\nFrom Anko Require Import Walk.WalkModel.\nImport ListNotations.\n\n")
	b.WriteString("Definition ast_table : list (nat * nat) := [\n")
	for i, e := range table {
		sep := ";"
		if i == len(table)-1 {
			sep = ""
		}
		fmt.Fprintf(&b, "  (%d, %d)%s (* %s *)\n", e.Kind, e.NFields, sep, e.Name)
	}
	b.WriteString("].\n\nDefinition walk_table : list (nat * entry) := [\n")
	for i, e := range table {
		sep := ";"
		if i == len(table)-1 {
			sep = ""
		}
		fmt.Fprintf(&b, "  (%d, %s)%s (* %s *)\n", e.Kind, walkEntryCoq(e), sep, e.Name)
	}
	b.WriteString("].\n")
	return b.String()
}

func walkEntryCoq(e walkEntry) string {
	if e.Status != "ok" {
		return "Unknown"
	}
	var acts []string
	for _, a := range e.Acts {
		var i, j int
		switch a[0] {
		case 'F':
			fmt.Sscanf(a, "F %d", &i)
			acts = append(acts, fmt.Sprintf("AField %d", i))
		case 'Z':
			fmt.Sscanf(a, "Z %d %d", &i, &j)
			acts = append(acts, fmt.Sprintf("AZip %d %d", i, j))
		default:
			acts = append(acts, "AExtra")
		}
	}
	return "Acts " + coqList(acts)
}

func walkTableSx(table []walkEntry) string {
	var ents []string
	for _, e := range table {
		if e.Status != "ok" {
			ents = append(ents, sxList(sxInt(e.Kind), sxInt(e.NFields), "unknown"))
			continue
		}
		var acts []string
		for _, a := range e.Acts {
			acts = append(acts, "("+a+")")
		}
		ents = append(ents, sxList(sxInt(e.Kind), sxInt(e.NFields), sxList(acts...)))
	}
	return sxList(ents...)
}

// ---- whole programs ----
type c17Tree struct {
	ID     int          `json:"id"`
	Kind   int          `json:"kind"`
	Fields [][]*c17Tree `json:"fields"`
}

func buildTree(n interface{}, ids map[interface{}]int) *c17Tree {
	k, groups := astChildren(n)
	if k < 0 {
		return nil
	}
	// x++ and x += e are parsed into trees that contain the node of x twice (a DAG):
	// a node keeps the identity given at its first occurrence
	id, seen := ids[n]
	if !seen {
		id = len(ids)
		ids[n] = id
	}
	t := &c17Tree{ID: id, Kind: k}
	for _, g := range groups {
		var cs []*c17Tree
		for _, c := range g {
			if ct := buildTree(c, ids); ct != nil {
				cs = append(cs, ct)
			}
		}
		t.Fields = append(t.Fields, cs)
	}
	return t
}

func (t *c17Tree) sx() string {
	parts := []string{sxInt(t.ID), sxInt(t.Kind)}
	for _, f := range t.Fields {
		var cs []string
		for _, c := range f {
			cs = append(cs, c.sx())
		}
		parts = append(parts, sxList(cs...))
	}
	return sxList(parts...)
}

func (t *c17Tree) count() int {
	n := 1
	for _, f := range t.Fields {
		for _, c := range f {
			n += c.count()
		}
	}
	return n
}

type c17Case struct {
	Src       string `json:"src"`
	Seq       []int  `json:"seq"` // ids presented, -1 = a node that is not part of the tree
	Err       string `json:"err,omitempty"`
	FailAt    int    `json:"fail_at"`   // the callback fails on its (fail_at+1)-th call, -1 = never
	Presented int    `json:"presented"` // calls made in the failing run
	ErrIsOurs bool   `json:"err_is_ours"`
	FailErr   string `json:"fail_err,omitempty"` // the error value of the run in which Walk did not hand it back
	Nodes     int    `json:"nodes"`
	Distinct  int    `json:"distinct_ids"`
	// the same walk while other walks are under way: started from inside the callback (every node handed over is walked
	// again before the callback returns), and on another goroutine; "" = the same sequence as the walk alone
	Reentrant  string `json:"reentrant,omitempty"`
	Concurrent string `json:"concurrent,omitempty"`
	tree       *c17Tree
}

var errStop = errors.New("stop here")

type c17StopErr struct{ code int }

func (e *c17StopErr) Error() string { return "stopped" }

var errStopPtr error = &c17StopErr{1}

func c17Parse(src string) (*c17Case, anko.Stmt, map[interface{}]int, bool) {
	stmt, err := parser.ParseSrc(src)
	if err != nil || stmt == nil {
		return nil, nil, nil, false
	}
	ids := map[interface{}]int{}
	tree := buildTree(stmt, ids)
	if tree == nil {
		return nil, nil, nil, false
	}
	return &c17Case{Src: src, tree: tree, Nodes: tree.count(), Distinct: len(ids), FailAt: -1}, stmt, ids, true
}

func c17Walk(c *c17Case, stmt anko.Stmt, ids map[interface{}]int, rnd *Rand) {
	werr := astutil.Walk(stmt, func(x interface{}) error {
		if id, ok := ids[x]; ok {
			c.Seq = append(c.Seq, id)
		} else {
			c.Seq = append(c.Seq, -1)
		}
		return nil
	})
	if werr != nil {
		c.Err = werr.Error()
	}
	sameSeq := func(got []int, err error) string {
		if err != nil {
			return "error " + err.Error()
		}
		if len(got) != len(c.Seq) {
			return fmt.Sprintf("%d nodes presented instead of %d: %v", len(got), len(c.Seq), got)
		}
		for i := range got {
			if got[i] != c.Seq[i] {
				return fmt.Sprintf("position %d presents node %d instead of %d: %v", i, got[i], c.Seq[i], got)
			}
		}
		return ""
	}
	record := func(dst *[]int) func(x interface{}) error {
		return func(x interface{}) error {
			if id, ok := ids[x]; ok {
				*dst = append(*dst, id)
			} else {
				*dst = append(*dst, -1)
			}
			return nil
		}
	}
	if werr == nil && len(c.Seq) > 0 && len(c.Seq) <= 400 {
		var outer []int
		rec := record(&outer)
		rerr := astutil.Walk(stmt, func(x interface{}) error {
			rec(x)
			// walk what was handed over once more before returning (a callback that inspects a subtree with Walk)
			switch n := x.(type) {
			case anko.Stmt:
				astutil.Walk(n, func(interface{}) error { return nil })
			case anko.Expr:
				astutil.Walk(&anko.ExprStmt{Expr: n}, func(interface{}) error { return nil })
			}
			return nil
		})
		c.Reentrant = sameSeq(outer, rerr)
		// two more walks of the same tree on other goroutines while this one runs
		stop := make(chan struct{})
		done := make(chan struct{}, 2)
		for g := 0; g < 2; g++ {
			go func() {
				defer func() { done <- struct{}{} }()
				for {
					select {
					case <-stop:
						return
					default:
					}
					astutil.Walk(stmt, func(interface{}) error { runtime.Gosched(); return nil })
				}
			}()
		}
		worst := ""
		for round := 0; round < 4 && worst == ""; round++ {
			var mine []int
			rec2 := record(&mine)
			cerr := astutil.Walk(stmt, func(x interface{}) error { rec2(x); runtime.Gosched(); return nil })
			worst = sameSeq(mine, cerr)
		}
		close(stop)
		<-done
		<-done
		c.Concurrent = worst
	}
	if len(c.Seq) > 0 {
		c.FailAt = rnd.Intn(len(c.Seq))
		// whatever error value the callback hands back - also ones that mean "done" elsewhere - is what Walk returns
		pool := []error{errStop, io.EOF, io.ErrUnexpectedEOF, context.Canceled, context.DeadlineExceeded, errors.New(""), &parser.Error{Message: "refused"}, errStopPtr, filepath.SkipDir, io.ErrClosedPipe}
		n := 0
		c.ErrIsOurs = true
		for k := 0; k < 3; k++ {
			chosen := pool[rnd.Intn(len(pool))]
			if k == 0 {
				chosen = pool[(c.FailAt+len(c.Seq))%len(pool)]
			}
			n = 0
			ferr := astutil.Walk(stmt, func(x interface{}) error {
				n++
				if n-1 == c.FailAt {
					return chosen
				}
				return nil
			})
			if ferr != chosen || n != c.FailAt+1 {
				c.ErrIsOurs = ferr == chosen
				c.FailErr = fmt.Sprintf("%T %q", chosen, chosen.Error())
				break
			}
		}
		c.Presented = n
	}
}

func c17Main(seed uint64, n int, outDir, repo string) error {
	// completeness of the registry w.r.t. the source
	srcKinds, err := astSourceKinds(repo)
	if err != nil {
		return err
	}
	have := map[string]bool{}
	for _, k := range astKinds {
		have[k.Name] = true
		sf, ok := srcKinds[k.Name]
		if !ok {
			return fmt.Errorf("node type %s not found in %s/ast", k.Name, repo)
		}
		if len(sf) != len(k.Fields) {
			return fmt.Errorf("node type %s: child fields differ between reflection and source", k.Name)
		}
		for i := range sf {
			if sf[i].Name != k.Fields[i].Name || sf[i].Class != k.Fields[i].Class || sf[i].Slice != k.Fields[i].Slice {
				return fmt.Errorf("node type %s field %s: reflection and source disagree", k.Name, sf[i].Name)
			}
		}
	}
	rnd := NewRand(seed, "c17")
	var cases []*c17Case
	kinds := map[string]int{}
	parseFail := 0
	seen := map[string]bool{}
	distinct := 0
	// directed: one program per statement/expression form that the grammar offers
	directed := []string{
		"delete(a, b)", "delete(a)", "close(c)", "a, ok = <- c", "a = <- c", "a ?? b", "make(type T, x)",
		"len(f(x))", "a[1:2:g(3)]", "switch x { case f(1), 2: g()\ndefault: h() }", "f(a)(b, c...)",
		"{a: b, c: d}", "x = func(a, b...) { return a }", "for i = 0; i < 3; i++ { x }", "a.b.c = [1, 2][0]",
		"try { throw 1 } catch e { e } finally { 2 }", "module m { a = 1 }", "go f(x)", "defer f(x)", "c <- 1", "x = <- c",
		"if a { b } else if c { d } else { e }", "for k, v in m { k }", "var a, b = 1, 2", "a, b = b, a", "x++; y += 2",
		"a ? b : c", "1 in [1]", "!a; -b; ^c; &d; *e", "new(int64); make([]int64, 1, 2)", "import(\"strings\")",
	}
	type parsed struct {
		stmt anko.Stmt
		ids  map[interface{}]int
	}
	var parsedCases []parsed
	add := func(src string) {
		c, stmt, ids, ok := c17Parse(src)
		if !ok {
			parseFail++
			return
		}
		cases = append(cases, c)
		parsedCases = append(parsedCases, parsed{stmt, ids})
		if !seen[src] && c.Nodes >= 4 {
			distinct++
		}
		seen[src] = true
	}
	for _, s := range directed {
		add(s)
	}
	g := newSrcGen(rnd.Fork("src"))
	for len(cases) < n {
		add(g.program(1 + rnd.Intn(4)))
	}
	for k, v := range g.kinds {
		kinds[k] = v
	}
	// node types of the source that neither the registry nor any parsed tree knows
	var missing []string
	for name := range srcKinds {
		found := false
		for _, k := range astKinds {
			if k.Name == name {
				found = true
			}
		}
		if !found {
			missing = append(missing, name)
		}
	}
	sort.Strings(missing)
	// node types met in parsed trees are registered by now: probe the walker for every kind
	table := probeWalkTable()
	if err := os.MkdirAll(filepath.Join(outDir, "AnkoGen"), 0o755); err != nil {
		return err
	}
	if err := os.WriteFile(filepath.Join(outDir, "AnkoGen", "GenWalk.v"), []byte(walkTableCoq(table)), 0o644); err != nil {
		return err
	}
	tsx := walkTableSx(table)
	for i, c := range cases {
		c17Walk(c, parsedCases[i].stmt, parsedCases[i].ids, rnd)
	}
	var sb strings.Builder
	for _, c := range cases {
		var seq []string
		for _, id := range c.Seq {
			seq = append(seq, sxInt(id+1)) // 0 = extra node, id+1 otherwise
		}
		errFlag := "ok"
		if c.Err != "" {
			errFlag = "err"
		}
		sb.WriteString("c17 " + sxList(tsx, c.tree.sx(), sxList(seq...), errFlag,
			sxList(sxInt(c.FailAt+1), sxInt(c.Presented), sxBool(c.ErrIsOurs))) + "\n")
	}
	if err := os.WriteFile(filepath.Join(outDir, "cases.sx"), []byte(sb.String()), 0o644); err != nil {
		return err
	}
	f, err := os.Create(filepath.Join(outDir, "cases.jsonl"))
	if err != nil {
		return err
	}
	enc := json.NewEncoder(f)
	for _, c := range cases {
		enc.Encode(c)
	}
	f.Close()
	meta := map[string]interface{}{"cases": len(cases), "parse_failures": parseFail, "distinct_nontrivial": distinct,
		"constructs": kinds, "table": table, "unregistered_node_types": missing}
	mb, _ := json.MarshalIndent(meta, "", " ")
	return os.WriteFile(filepath.Join(outDir, "meta.json"), mb, 0o644)
}
