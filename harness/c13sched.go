//go:build verif_sched

package main

// C13: systematic exploration of the interleavings, at lock-acquisition granularity, of 2-3
// goroutines operating on one shared scope of the real env package.  The env package is built
// with its sync.RWMutex swapped for env.VerifRWMutex (harness/overlay), so that this scheduler
// decides which goroutine's acquisition proceeds; exactly one worker runs at a time.

import (
	"encoding/json"
	"fmt"
	"os"
	"path/filepath"
	"reflect"
	"sort"
	"strings"

	"github.com/mattn/anko/env"
)

type c13Event struct {
	tid   int
	done  bool
	m     *env.VerifRWMutex
	write bool
}

type c13Sched struct {
	events  chan c13Event
	grant   []chan struct{}
	current int
	// read locks held, per mutex and goroutine: sync.RWMutex gives a waiting writer precedence over new
	// readers, so a goroutine that asks for a read lock it already holds while a writer waits never gets it
	readers map[*env.VerifRWMutex]map[int]int
}

func (s *c13Sched) Acquire(m *env.VerifRWMutex, write bool) {
	tid := s.current
	s.events <- c13Event{tid: tid, m: m, write: write}
	<-s.grant[tid]
}

func (s *c13Sched) Release(m *env.VerifRWMutex, write bool) {
	if write {
		m.Writer = false
	} else {
		m.Readers--
		if s.readers[m] != nil {
			s.readers[m][s.current]--
		}
	}
}

type c13Result struct {
	Outs     [][]string `json:"outs"` // per thread, per op: S-expression of the observed result
	Final    []string   `json:"final"`
	Deadlock bool       `json:"deadlock"`
	Sched    []int      `json:"sched"`
	Width    []int      `json:"width"`
}

func c13Dump(e *env.Env, id int) c12Dump {
	d := c12Dump{Vals: map[string]c12Val{}, Types: map[string]int{}}
	for _, k := range e.GetValueSymbols() {
		v, err := e.GetValue(k)
		if err == nil {
			d.Vals[k] = c13Canon(v)
		}
	}
	for _, k := range e.GetTypeSymbols() {
		t, err := e.Type(k)
		if err == nil {
			d.Types[k] = typeTok(t)
		}
	}
	return d
}

func c13Canon(v reflect.Value) c12Val {
	if v.IsValid() && v.Type() == tokType {
		return c12Val{Tok: v.Interface().(tokVal).N, Addr: v.CanAddr(), Env: -1}
	}
	if v == env.NilValue {
		return c12Val{Tok: 0, Env: -1}
	}
	return c12Val{Tok: -1, Env: -1}
}

func c13Apply(envs []*env.Env, op c12Op) (out string) {
	defer func() {
		if p := recover(); p != nil {
			out = "(panic)"
		}
	}()
	e := envs[op.E]
	errOut := func(err error) string {
		if err != nil {
			return c12SxOut(c12Out{Kind: "err", Err: classifyEnvErr(err)})
		}
		return "(none)"
	}
	switch op.K {
	case "Define":
		return errOut(e.DefineValue(op.S, tokValue(op.V.Tok, false)))
	case "Set":
		return errOut(e.SetValue(op.S, tokValue(op.V.Tok, false)))
	case "Get":
		v, err := e.GetValue(op.S)
		if err != nil {
			return errOut(err)
		}
		c := c13Canon(v)
		return sxList("val", c12SxVal(&c))
	case "Delete":
		e.Delete(op.S)
		return "(none)"
	case "DeleteGlobal":
		e.DeleteGlobal(op.S)
		return "(none)"
	case "Symbols":
		return c12SxOut(c12Out{Kind: "syms", Syms: e.GetValueSymbols()})
	case "TypeSymbols":
		return c12SxOut(c12Out{Kind: "syms", Syms: e.GetTypeSymbols()})
	case "DefineType":
		return errOut(e.DefineReflectType(op.S, tokTypeOf(op.T)))
	case "Type":
		t, err := e.Type(op.S)
		if err != nil {
			return errOut(err)
		}
		return sxList("ty", sxInt(typeTok(t)))
	case "LazyExt": // an external lookup that caches what it resolves in the scope it serves
		e.SetExternalLookup(&c13ReExt{e: e, define: true})
		return "(none)"
	case "PeekExt": // an external lookup that looks at the scope it serves
		e.SetExternalLookup(&c13ReExt{e: e})
		return "(none)"
	case "BindGoStringer": // binds a value whose GoString defines in the scope (T = 1) or lists it (T = 0)
		e.DefineValue("gs", reflect.ValueOf(c13GoStringer{e: e, define: op.T == 1}))
		return "(none)"
	case "String": // the remaining exported operations: explored for deadlock and panic only
		_ = e.String()
		return "(none)"
	case "DeepCopy":
		e.DeepCopy()
		return "(none)"
	case "Addr":
		e.Addr(op.S)
		return "(none)"
	case "Path":
		e.GetEnvFromPath([]string{op.S})
		return "(none)"
	case "SnapKeep": // a copy that is looked at only when the run is over: a snapshot stays what it was
		c13Kept = append(c13Kept, e.Copy())
		return fmt.Sprintf("(snapkeep %d)", len(c13Kept)-1)
	case "Snap":
		c := e.Copy()
		d := c13Dump(c, 0)
		s := c12SxDump(0, d) // (0 vals types)
		return "(snap " + strings.TrimPrefix(s, "(0 ")
	}
	return "(bad)"
}

// copies taken by SnapKeep during the current run
var c13Kept []*env.Env

func c13OpSx(op c12Op) string {
	switch op.K {
	case "Snap", "SnapKeep":
		return sxList("Snap", sxInt(op.E))
	case "String", "DeepCopy", "Addr", "Path", "BindGoStringer": // never sent to the model
		return sxList(op.K, sxInt(op.E))
	}
	return c12SxOp(op)
}

// one controlled run under the given schedule prefix (choices beyond the prefix are 0)
func c13RunOnce(initOps []c12Op, threads [][]c12Op, prefix []int) c13Result {
	// scopes: 0 = root (parent), 1 = shared child; built without the scheduler
	env.VerifSched = nil
	c13Kept = nil
	root := env.NewEnv()
	envs := []*env.Env{root, root.NewEnv()}
	for _, op := range initOps {
		if op.K != "NewRoot" && op.K != "NewEnv" {
			c13Apply(envs, op)
		}
	}
	nt := len(threads)
	s := &c13Sched{events: make(chan c13Event), grant: make([]chan struct{}, nt), readers: map[*env.VerifRWMutex]map[int]int{}}
	res := c13Result{Outs: make([][]string, nt)}
	for i := range s.grant {
		s.grant[i] = make(chan struct{})
	}
	env.VerifSched = s
	pending := map[int]c13Event{}
	finished := 0
	// prime: run every thread up to its first acquisition, in thread order
	for i := 0; i < nt; i++ {
		i := i
		s.current = i
		go func() {
			<-s.grant[i]
			for _, op := range threads[i] {
				res.Outs[i] = append(res.Outs[i], c13Apply(envs, op))
			}
			s.events <- c13Event{tid: i, done: true}
		}()
		s.grant[i] <- struct{}{}
		ev := <-s.events
		if ev.done {
			finished++
		} else {
			pending[ev.tid] = ev
		}
	}
	step := 0
	for finished < nt {
		var enabled []int
		for tid, ev := range pending {
			if ev.write && !ev.m.Writer && ev.m.Readers == 0 || !ev.write && !ev.m.Writer {
				enabled = append(enabled, tid)
			}
		}
		sort.Ints(enabled)
		for tid, ev := range pending {
			if ev.write || s.readers[ev.m][tid] == 0 {
				continue
			}
			for _, other := range pending {
				if other.write && other.m == ev.m { // the writer waits for tid's first read lock, tid's second waits for the writer
					enabled = nil
				}
			}
		}
		if len(enabled) == 0 {
			res.Deadlock = true
			break
		}
		c := 0
		if step < len(prefix) {
			c = prefix[step]
		}
		if c >= len(enabled) {
			c = len(enabled) - 1
		}
		res.Sched = append(res.Sched, c)
		res.Width = append(res.Width, len(enabled))
		step++
		tid := enabled[c]
		ev := pending[tid]
		delete(pending, tid)
		if ev.write {
			ev.m.Writer = true
		} else {
			ev.m.Readers++
			if s.readers[ev.m] == nil {
				s.readers[ev.m] = map[int]int{}
			}
			s.readers[ev.m][tid]++
		}
		s.current = tid
		s.grant[tid] <- struct{}{}
		nev := <-s.events
		if nev.done {
			finished++
		} else {
			pending[nev.tid] = nev
		}
	}
	env.VerifSched = nil
	if !res.Deadlock {
		for i, outs := range res.Outs {
			for j, o := range outs {
				var k int
				if n, _ := fmt.Sscanf(o, "(snapkeep %d)", &k); n == 1 && k < len(c13Kept) {
					d := c13Dump(c13Kept[k], 0)
					res.Outs[i][j] = "(snap " + strings.TrimPrefix(c12SxDump(0, d), "(0 ")
				}
			}
		}
		for i, e := range envs {
			res.Final = append(res.Final, c12SxDump(i, c13Dump(e, i)))
		}
	}
	return res
}

type c13Program struct {
	Init    []c12Op   `json:"init"`
	Threads [][]c12Op `json:"threads"`
	// Reentrant: the scope has an external lookup whose callback calls back into the scope; such programs are
	// outside the sequential model and are explored for deadlock and panic only
	Reentrant bool `json:"reentrant,omitempty"`
}

// c13ReExt is a host-side external lookup that uses the scope it is installed on - what a lazily
// resolving host does.  It must be callable without deadlock whatever else goes on in the scope.
type c13ReExt struct {
	e      *env.Env
	define bool
}

func (x *c13ReExt) Get(symbol string) (reflect.Value, error) {
	if x.define {
		x.e.DefineValue("lazy_"+symbol, tokValue(77, false))
	} else {
		x.e.GetValueSymbols()
	}
	return tokValue(77, false), nil
}

func (x *c13ReExt) Type(symbol string) (reflect.Type, error) {
	if x.define {
		x.e.DefineReflectType("lazy_"+symbol, tokTypeOf(3))
	} else {
		x.e.GetTypeSymbols()
	}
	return tokTypeOf(3), nil
}

// c13GoStringer is a value whose GoString method (run by String()'s %#v) uses the scope it is bound in
type c13GoStringer struct {
	e      *env.Env
	define bool
}

func (g c13GoStringer) GoString() string {
	if g.define {
		g.e.DefineValue("seen_by_gostring", tokValue(78, false))
	} else {
		g.e.GetValueSymbols()
	}
	return "gostringer"
}

func c13GenOp(rnd *Rand, next *int) c12Op {
	keys := []string{"a", "b", "p"} // p is bound in the parent
	k := keys[rnd.Pick([]int{5, 3, 2})]
	*next++
	v := &c12Val{Tok: *next, Env: -1}
	switch rnd.Pick([]int{5, 4, 5, 4, 2, 2, 4, 2, 1, 4}) {
	case 0:
		return c12Op{K: "Define", E: 1, S: k, V: v}
	case 1:
		return c12Op{K: "Set", E: 1, S: k, V: v}
	case 2:
		return c12Op{K: "Get", E: 1, S: k}
	case 3:
		return c12Op{K: "Delete", E: 1, S: k}
	case 4:
		return c12Op{K: "DeleteGlobal", E: 1, S: k}
	case 5:
		return c12Op{K: "Symbols", E: 1}
	case 6:
		return c12Op{K: "DefineType", E: 1, S: "T" + k, T: 1 + *next%7}
	case 7:
		return c12Op{K: "Type", E: 1, S: "T" + k}
	case 8:
		return c12Op{K: "TypeSymbols", E: 1}
	}
	return c12Op{K: "Snap", E: 1}
}

func c13Gen(rnd *Rand) c13Program {
	next := 10
	p := c13Program{Init: []c12Op{{K: "NewRoot"}, {K: "NewEnv", E: 0},
		{K: "Define", E: 0, S: "p", V: &c12Val{Tok: 1, Env: -1}},
		{K: "Define", E: 0, S: "a", V: &c12Val{Tok: 2, Env: -1}}}}
	if rnd.Bool() {
		p.Init = append(p.Init, c12Op{K: "Define", E: 1, S: "a", V: &c12Val{Tok: 3, Env: -1}})
	}
	if rnd.Chance(1, 3) {
		p.Init = append(p.Init, c12Op{K: "Define", E: 1, S: "b", V: &c12Val{Tok: 4, Env: -1}})
	}
	nt := 2 + rnd.Intn(2)
	for i := 0; i < nt; i++ {
		var ops []c12Op
		no := 1 + rnd.Intn(3)
		if nt == 3 && no > 2 {
			no = 2
		}
		for j := 0; j < no; j++ {
			ops = append(ops, c13GenOp(rnd, &next))
		}
		p.Threads = append(p.Threads, ops)
	}
	return p
}

func c13Directed() []c13Program {
	tv := func(n int) *c12Val { return &c12Val{Tok: n, Env: -1} }
	base := []c12Op{{K: "NewRoot"}, {K: "NewEnv", E: 0}, {K: "Define", E: 0, S: "p", V: tv(1)}}
	with := func(extra ...c12Op) []c12Op { return append(append([]c12Op{}, base...), extra...) }
	return []c13Program{
		{Init: with(c12Op{K: "Define", E: 1, S: "a", V: tv(3)}), Threads: [][]c12Op{
			{{K: "Set", E: 1, S: "a", V: tv(11)}, {K: "Get", E: 1, S: "a"}},
			{{K: "Delete", E: 1, S: "a"}, {K: "Define", E: 1, S: "a", V: tv(12)}}}},
		{Init: with(), Threads: [][]c12Op{
			{{K: "Define", E: 1, S: "a", V: tv(11)}, {K: "Snap", E: 1}},
			{{K: "Define", E: 1, S: "b", V: tv(12)}, {K: "Symbols", E: 1}},
			{{K: "DefineType", E: 1, S: "Ta", T: 3}, {K: "TypeSymbols", E: 1}}}},
		{Init: with(c12Op{K: "Define", E: 1, S: "a", V: tv(3)}), Threads: [][]c12Op{
			{{K: "DeleteGlobal", E: 1, S: "a"}, {K: "Get", E: 1, S: "a"}},
			{{K: "Delete", E: 1, S: "a"}, {K: "Define", E: 1, S: "a", V: tv(12)}, {K: "Get", E: 1, S: "p"}}}},
		{Init: with(c12Op{K: "Define", E: 0, S: "a", V: tv(2)}, c12Op{K: "Define", E: 1, S: "a", V: tv(3)}), Threads: [][]c12Op{ // two deletes: child's, then parent's
			{{K: "DeleteGlobal", E: 1, S: "a"}}, {{K: "DeleteGlobal", E: 1, S: "a"}}, {{K: "Get", E: 1, S: "a"}}}},
		{Init: with(c12Op{K: "Define", E: 0, S: "a", V: tv(2)}, c12Op{K: "Define", E: 1, S: "a", V: tv(3)}), Threads: [][]c12Op{
			{{K: "DeleteGlobal", E: 1, S: "a"}, {K: "DefineType", E: 1, S: "Tb", T: 6}}, {{K: "Define", E: 1, S: "a", V: tv(13)}, {K: "Snap", E: 1}},
			{{K: "DeleteGlobal", E: 1, S: "a"}, {K: "DeleteGlobal", E: 1, S: "a"}}}},
		{Init: with(), Threads: [][]c12Op{ // a copy is one snapshot of values and types together
			{{K: "Define", E: 1, S: "a", V: tv(11)}, {K: "DefineType", E: 1, S: "Ta", T: 3}},
			{{K: "Snap", E: 1}}}},
		{Init: with(), Threads: [][]c12Op{
			{{K: "DefineType", E: 1, S: "Ta", T: 3}, {K: "Define", E: 1, S: "a", V: tv(11)}},
			{{K: "Snap", E: 1}, {K: "Snap", E: 1}}}},
		{Init: with(c12Op{K: "Define", E: 1, S: "a", V: tv(3)}, c12Op{K: "DefineType", E: 1, S: "Ta", T: 2}), Threads: [][]c12Op{
			{{K: "Delete", E: 1, S: "a"}, {K: "DefineType", E: 1, S: "Tb", T: 4}},
			{{K: "Snap", E: 1}},
			{{K: "Symbols", E: 1}, {K: "TypeSymbols", E: 1}}}},
		{Init: with(), Threads: [][]c12Op{
			{{K: "Set", E: 1, S: "p", V: tv(11)}, {K: "Get", E: 1, S: "p"}},
			{{K: "Define", E: 1, S: "p", V: tv(12)}, {K: "Delete", E: 1, S: "p"}},
			{{K: "Get", E: 1, S: "p"}, {K: "Snap", E: 1}}}},
		// a copy is a snapshot for good: taken from a scope whose table was emptied again, looked at when the run is over
		{Init: with(c12Op{K: "Define", E: 1, S: "a", V: tv(3)}, c12Op{K: "Delete", E: 1, S: "a"}), Threads: [][]c12Op{
			{{K: "SnapKeep", E: 1}, {K: "Get", E: 1, S: "b"}}, {{K: "Define", E: 1, S: "b", V: tv(12)}}}},
		{Init: with(c12Op{K: "Define", E: 1, S: "a", V: tv(3)}, c12Op{K: "Delete", E: 1, S: "a"}), Threads: [][]c12Op{
			{{K: "SnapKeep", E: 1}, {K: "Symbols", E: 1}}, {{K: "Define", E: 1, S: "a", V: tv(12)}, {K: "Define", E: 1, S: "b", V: tv(13)}}}},
		{Init: with(c12Op{K: "Define", E: 1, S: "a", V: tv(3)}), Threads: [][]c12Op{
			{{K: "SnapKeep", E: 1}, {K: "Get", E: 1, S: "a"}}, {{K: "Set", E: 1, S: "a", V: tv(12)}, {K: "Delete", E: 1, S: "a"}}}},
		// external lookups that call back into the scope they serve: no schedule may deadlock
		{Reentrant: true, Init: with(c12Op{K: "LazyExt", E: 1}), Threads: [][]c12Op{
			{{K: "Get", E: 1, S: "zz"}}, {{K: "Define", E: 1, S: "b", V: tv(12)}}}},
		{Reentrant: true, Init: with(c12Op{K: "Define", E: 1, S: "a", V: tv(3)}, c12Op{K: "PeekExt", E: 1}), Threads: [][]c12Op{
			{{K: "Get", E: 1, S: "zz"}, {K: "Get", E: 1, S: "a"}}, {{K: "Set", E: 1, S: "a", V: tv(12)}}, {{K: "Delete", E: 1, S: "b"}}}},
		{Reentrant: true, Init: with(c12Op{K: "LazyExt", E: 1}), Threads: [][]c12Op{
			{{K: "Type", E: 1, S: "Tzz"}}, {{K: "DefineType", E: 1, S: "Tb", T: 2}, {K: "Snap", E: 1}}}},
		{Reentrant: true, Init: with(c12Op{K: "PeekExt", E: 1}), Threads: [][]c12Op{
			{{K: "Type", E: 1, S: "Tzz"}, {K: "Get", E: 1, S: "zz"}}, {{K: "Define", E: 1, S: "b", V: tv(12)}}, {{K: "DefineType", E: 1, S: "Tb", T: 2}}}},
		// the operations outside the sequential model (printing, deep copy, address, module path) next to writers
		{Reentrant: true, Init: with(c12Op{K: "Define", E: 1, S: "a", V: tv(3)}, c12Op{K: "DefineType", E: 1, S: "Ta", T: 2}), Threads: [][]c12Op{
			{{K: "String", E: 1}}, {{K: "Define", E: 1, S: "b", V: tv(12)}}, {{K: "DefineType", E: 1, S: "Tb", T: 4}}}},
		{Reentrant: true, Init: with(c12Op{K: "Define", E: 1, S: "a", V: tv(3)}), Threads: [][]c12Op{
			{{K: "DeepCopy", E: 1}, {K: "String", E: 0}}, {{K: "Set", E: 1, S: "p", V: tv(12)}, {K: "Delete", E: 1, S: "a"}}}},
		{Reentrant: true, Init: with(c12Op{K: "Define", E: 1, S: "a", V: tv(3)}), Threads: [][]c12Op{
			{{K: "Addr", E: 1, S: "a"}, {K: "Addr", E: 1, S: "p"}}, {{K: "Path", E: 1, S: "a"}}, {{K: "DeleteGlobal", E: 1, S: "a"}, {K: "Define", E: 0, S: "a", V: tv(13)}}}},
		// String() prints values with %#v: a value's own GoString method must not find the scope locked
		{Reentrant: true, Init: with(c12Op{K: "BindGoStringer", E: 1, T: 1}), Threads: [][]c12Op{{{K: "String", E: 1}}, {{K: "Get", E: 1, S: "p"}}}},
		{Reentrant: true, Init: with(c12Op{K: "BindGoStringer", E: 1, T: 0}), Threads: [][]c12Op{
			{{K: "String", E: 1}}, {{K: "Define", E: 1, S: "b", V: tv(12)}}, {{K: "Delete", E: 1, S: "b"}}}},
		{Reentrant: true, Init: with(c12Op{K: "LazyExt", E: 1}), Threads: [][]c12Op{ // Addr consults the external lookup as Get does
			{{K: "Addr", E: 1, S: "zz"}}, {{K: "Define", E: 1, S: "b", V: tv(12)}}}},
		{Reentrant: true, Init: with(c12Op{K: "Define", E: 1, S: "a", V: tv(3)}, c12Op{K: "PeekExt", E: 1}), Threads: [][]c12Op{
			{{K: "Addr", E: 1, S: "zz"}, {K: "Addr", E: 1, S: "a"}}, {{K: "Set", E: 1, S: "a", V: tv(12)}}, {{K: "Delete", E: 1, S: "b"}}}},
		{Reentrant: true, Init: with(c12Op{K: "PeekExt", E: 0}), Threads: [][]c12Op{ // the lookup of the parent, reached by Addr through the child
			{{K: "Addr", E: 1, S: "zz"}}, {{K: "Define", E: 0, S: "q", V: tv(12)}}, {{K: "Define", E: 1, S: "b", V: tv(13)}}}},
		{Reentrant: true, Init: with(c12Op{K: "PeekExt", E: 0}), Threads: [][]c12Op{ // the lookup sits on the parent: reached through the child
			{{K: "Get", E: 1, S: "zz"}}, {{K: "Define", E: 0, S: "q", V: tv(12)}}, {{K: "Define", E: 1, S: "b", V: tv(13)}}}},
	}
}

func c13Main(seed uint64, n int, outDir, repo string) error {
	acc, funcs, err0 := writeLockTable(repo, outDir)
	if err0 != nil {
		return err0
	}
	rnd := NewRand(seed, "c13")
	progs := c13Directed()
	for len(progs) < n {
		progs = append(progs, c13Gen(rnd.Fork("p")))
	}
	maxRuns := 4000
	if n > 200 {
		maxRuns = 60000
	}
	cases, err := os.Create(filepath.Join(outDir, "cases.sx"))
	if err != nil {
		return err
	}
	defer cases.Close()
	type progMeta struct {
		Program   c13Program `json:"program"`
		Runs      int        `json:"runs"`
		Complete  bool       `json:"complete"`
		Outcomes  int        `json:"outcomes"`
		Deadlocks int        `json:"deadlocks"`
		DeadSched []int      `json:"dead_sched,omitempty"`
		Panics    int        `json:"panics"`
	}
	var metas []progMeta
	var outcomeOf []map[string]interface{}
	totalRuns := 0
	for pi, p := range progs {
		var initSx, thrOps [][]string
		_ = initSx
		var inits []string
		for _, op := range p.Init {
			if op.K == "LazyExt" || op.K == "PeekExt" || op.K == "BindGoStringer" {
				inits = append(inits, "("+op.K+")")
				continue
			}
			inits = append(inits, c12SxOp(op))
		}
		for _, t := range p.Threads {
			var l []string
			for _, op := range t {
				l = append(l, c13OpSx(op))
			}
			thrOps = append(thrOps, l)
		}
		seen := map[string]bool{}
		pm := progMeta{Program: p, Complete: true}
		prefix := []int{}
		for {
			r := c13RunOnce(p.Init, p.Threads, prefix)
			pm.Runs++
			if r.Deadlock {
				pm.Deadlocks++
				if pm.DeadSched == nil {
					pm.DeadSched = r.Sched
				}
			} else {
				var ts []string
				for i, outs := range r.Outs {
					var evs []string
					for j, o := range outs {
						evs = append(evs, sxList(thrOps[i][j], o))
					}
					ts = append(ts, sxList(evs...))
				}
				line := sxList(sxList(inits...), sxList(ts...), sxList(r.Final...))
				if p.Reentrant {
					seen[line] = true // explored for deadlock and panic only
					for _, outs := range r.Outs {
						for _, o := range outs {
							if o == "(panic)" {
								pm.Panics++
							}
						}
					}
				} else if !seen[line] {
					seen[line] = true
					fmt.Fprintln(cases, "c13 "+line)
					outcomeOf = append(outcomeOf, map[string]interface{}{"program": pi, "sched": r.Sched, "outs": r.Outs, "final": r.Final})
				}
			}
			// next schedule in depth-first order
			k := len(r.Sched) - 1
			for k >= 0 && r.Sched[k]+1 >= r.Width[k] {
				k--
			}
			if k < 0 {
				break
			}
			prefix = append(append([]int{}, r.Sched[:k]...), r.Sched[k]+1)
			if pm.Runs >= maxRuns {
				pm.Complete = false
				break
			}
		}
		pm.Outcomes = len(seen)
		totalRuns += pm.Runs
		metas = append(metas, pm)
	}
	mb, _ := json.Marshal(map[string]interface{}{"programs": metas, "outcomes": outcomeOf, "total_runs": totalRuns, "accesses": acc, "methods": funcs})
	return os.WriteFile(filepath.Join(outDir, "meta.json"), mb, 0o644)
}
