package main

// Grammar-directed generator of anko source text over the full grammar of
// parser/parser.go.y (every statement and expression form).  Used by the
// syntax-level checks (C15, C17, C01 parse stream); semantic checks have their
// own generators.

import (
	"fmt"
	"strings"
)

type srcGen struct {
	r     *Rand
	depth int
	kinds map[string]int // histogram of produced constructs
}

func newSrcGen(r *Rand) *srcGen { return &srcGen{r: r, kinds: map[string]int{}} }

var srcIdents = []string{"a", "b", "c", "x", "y", "f", "g", "m", "ch", "s"}

func (g *srcGen) ident() string { return srcIdents[g.r.Intn(len(srcIdents))] }

func (g *srcGen) note(k string) { g.kinds[k]++ }

func (g *srcGen) typeData(d int) string {
	switch g.r.Intn(9) {
	case 0:
		return "int64"
	case 1:
		return "string"
	case 2:
		return "[]" + g.typeData(d+1)
	case 3:
		if d < 2 {
			return "map[" + g.typeData(d+1) + "]" + g.typeData(d+1)
		}
		return "bool"
	case 4:
		return "chan " + g.typeData(d+1)
	case 5:
		if d < 2 {
			return "*" + g.typeData(d+1)
		}
		return "float64"
	case 6:
		if d < 2 {
			return "struct {A " + g.typeData(d+1) + ", B " + g.typeData(d+1) + "}"
		}
		return "interface"
	case 7:
		return "a.b"
	}
	return "interface"
}

func (g *srcGen) literal() string {
	switch g.r.Intn(12) {
	case 0:
		return "nil"
	case 1:
		return "true"
	case 2:
		return "false"
	case 3:
		return fmt.Sprint(g.r.Intn(5))
	case 4:
		return "-" + fmt.Sprint(g.r.Intn(100))
	case 5:
		return fmt.Sprintf("%d.%d", g.r.Intn(10), g.r.Intn(100))
	case 6:
		return []string{"0x1f", "0b101", "1e3", "1.5e-2", "9223372036854775807"}[g.r.Intn(5)]
	case 7:
		return `"` + []string{"", "a", "hi", `q\"t`, `n\n`, "é"}[g.r.Intn(6)] + `"`
	case 8:
		return "`raw\\n`"
	case 9:
		return `'c'`
	}
	return fmt.Sprint(g.r.Intn(1000))
}

func (g *srcGen) exprs(n, d int) string {
	var p []string
	for i := 0; i < n; i++ {
		p = append(p, g.expr(d))
	}
	return strings.Join(p, ", ")
}

// operand: an expression safe to put next to any operator
func (g *srcGen) operand(d int) string {
	if d <= 0 || g.r.Chance(1, 2) {
		if g.r.Chance(1, 2) {
			return g.ident()
		}
		return g.literal()
	}
	return "(" + g.expr(d-1) + ")"
}

var binOps = []string{"+", "-", "*", "/", "%", "|", "&", "<<", ">>", "==", "!=", "<", "<=", ">", ">=", "&&", "||"}

func (g *srcGen) expr(d int) string {
	if d <= 0 {
		if g.r.Chance(1, 2) {
			g.note("Ident")
			return g.ident()
		}
		g.note("Literal")
		return g.literal()
	}
	k := g.r.Intn(34)
	switch k {
	case 0, 1:
		g.note("Ident")
		return g.ident()
	case 2, 3:
		g.note("Literal")
		return g.literal()
	case 4, 5, 6:
		g.note("BinaryOp")
		return g.operand(d-1) + " " + binOps[g.r.Intn(len(binOps))] + " " + g.operand(d-1)
	case 7:
		g.note("BinaryChain")
		return g.operand(d-1) + " " + binOps[g.r.Intn(len(binOps))] + " " + g.operand(d-1) + " " + binOps[g.r.Intn(len(binOps))] + " " + g.operand(d-1)
	case 8:
		g.note("Unary")
		return []string{"-", "!", "^", "&", "*"}[g.r.Intn(5)] + g.operand(d-1)
	case 9:
		g.note("Ternary")
		return g.operand(d-1) + " ? " + g.operand(d-1) + " : " + g.operand(d-1)
	case 10:
		g.note("NilCoalesce")
		return g.operand(d-1) + " ?? " + g.operand(d-1)
	case 11:
		g.note("Func")
		name := ""
		if g.r.Chance(1, 3) {
			name = " " + g.ident()
		}
		va := ""
		n := g.r.Intn(4)
		var ps []string
		for i := 0; i < n; i++ {
			ps = append(ps, srcIdents[i])
		}
		if n > 0 && g.r.Chance(1, 4) {
			va = "..."
		}
		return "func" + name + "(" + strings.Join(ps, ", ") + va + ") {" + g.block(d-1) + "}"
	case 12:
		g.note("Array")
		if g.r.Chance(1, 4) {
			return "[]"
		}
		return "[" + g.exprs(1+g.r.Intn(3), d-1) + "]"
	case 13:
		g.note("TypedArray")
		return "[]" + g.typeData(0) + "{" + g.exprs(g.r.Intn(3), d-1) + "}"
	case 14:
		g.note("Paren")
		return "(" + g.expr(d-1) + ")"
	case 15:
		g.note("Call")
		va := ""
		n := g.r.Intn(3)
		if n > 0 && g.r.Chance(1, 5) {
			va = "..."
		}
		return g.ident() + "(" + g.exprs(n, d-1) + va + ")"
	case 16:
		g.note("AnonCall")
		va := ""
		n := g.r.Intn(3)
		if n > 0 && g.r.Chance(1, 5) {
			va = "..."
		}
		return g.operand(d-1) + "(" + g.exprs(n, d-1) + va + ")"
	case 17:
		g.note("Item")
		return g.operand(d-1) + "[" + g.expr(d-1) + "]"
	case 18:
		g.note("Slice")
		base := g.operand(d - 1)
		switch g.r.Intn(5) {
		case 0:
			return base + "[" + g.operand(d-1) + ":" + g.operand(d-1) + "]"
		case 1:
			return base + "[" + g.operand(d-1) + ":]"
		case 2:
			return base + "[:" + g.operand(d-1) + "]"
		case 3:
			return base + "[:" + g.operand(d-1) + ":" + g.operand(d-1) + "]"
		}
		return base + "[" + g.operand(d-1) + ":" + g.operand(d-1) + ":" + g.operand(d-1) + "]"
	case 19:
		g.note("Len")
		return "len(" + g.expr(d-1) + ")"
	case 20:
		g.note("Import")
		return `import("strings")`
	case 21:
		g.note("New")
		return "new(" + g.typeData(0) + ")"
	case 22:
		g.note("Make")
		switch g.r.Intn(3) {
		case 0:
			return "make(" + g.typeData(0) + ")"
		case 1:
			return "make(" + g.typeData(0) + ", " + g.operand(d-1) + ")"
		}
		return "make(" + g.typeData(0) + ", " + g.operand(d-1) + ", " + g.operand(d-1) + ")"
	case 23:
		g.note("MakeType")
		return "make(type " + g.ident() + ", " + g.expr(d-1) + ")"
	case 24:
		g.note("In")
		return g.operand(d-1) + " in " + g.operand(d-1)
	case 25:
		g.note("Map")
		n := g.r.Intn(3)
		var kv []string
		for i := 0; i < n; i++ {
			kv = append(kv, g.operand(d-1)+": "+g.expr(d-1))
		}
		switch g.r.Intn(3) {
		case 0:
			return "{" + strings.Join(kv, ", ") + "}"
		case 1:
			return "map{" + strings.Join(kv, ", ") + "}"
		}
		return "map[" + g.typeData(1) + "]" + g.typeData(1) + "{" + strings.Join(kv, ", ") + "}"
	case 26:
		g.note("Member")
		return g.operand(d-1) + "." + []string{"A", "B", "x"}[g.r.Intn(3)]
	case 27:
		g.note("ChanSend")
		return g.operand(d-1) + " <- " + g.operand(d-1)
	case 28:
		g.note("ChanRecv")
		return "<- " + g.operand(d-1)
	case 29:
		g.note("IncDec")
		return g.ident() + []string{"++", "--"}[g.r.Intn(2)]
	case 30:
		g.note("OpAssign")
		return g.ident() + " " + []string{"+=", "-=", "*=", "/=", "&=", "|="}[g.r.Intn(6)] + " " + g.operand(d-1)
	}
	g.note("BinaryOp")
	return g.operand(d-1) + " " + binOps[g.r.Intn(len(binOps))] + " " + g.operand(d-1)
}

func (g *srcGen) block(d int) string {
	n := g.r.Intn(3)
	if d <= 0 {
		n = g.r.Intn(2)
	}
	var p []string
	for i := 0; i < n; i++ {
		p = append(p, g.stmt(d))
	}
	sep := []string{"; ", "\n", ";\n"}[g.r.Intn(3)]
	return " " + strings.Join(p, sep) + " "
}

func (g *srcGen) lhs(d int) string {
	switch g.r.Intn(5) {
	case 0:
		return g.ident() + "[" + g.operand(d-1) + "]"
	case 1:
		return g.ident() + ".A"
	case 2:
		return "*" + g.ident()
	}
	return g.ident()
}

func (g *srcGen) stmt(d int) string {
	if d <= 0 {
		g.note("ExprStmt")
		return g.expr(0)
	}
	switch g.r.Intn(30) {
	case 0, 1, 2:
		g.note("ExprStmt")
		return g.expr(d)
	case 3, 4:
		g.note("Lets")
		if g.r.Chance(1, 3) {
			return g.lhs(d) + ", " + g.lhs(d) + " = " + g.exprs(1+g.r.Intn(2), d-1)
		}
		return g.lhs(d) + " = " + g.expr(d-1)
	case 5:
		g.note("Var")
		if g.r.Chance(1, 3) {
			return "var " + g.ident() + ", " + g.ident() + " = " + g.exprs(1+g.r.Intn(2), d-1)
		}
		return "var " + g.ident() + " = " + g.expr(d-1)
	case 6:
		g.note("LetMapItem")
		return g.ident() + ", " + g.ident() + " = " + g.ident() + "[" + g.operand(d-1) + "]"
	case 7:
		g.note("Break")
		return "break"
	case 8:
		g.note("Continue")
		return "continue"
	case 9:
		g.note("Return")
		return "return " + g.exprs(g.r.Intn(3), d-1)
	case 10:
		g.note("Throw")
		return "throw " + g.expr(d-1)
	case 11:
		g.note("Module")
		return "module " + g.ident() + " {" + g.block(d-1) + "}"
	case 12, 13:
		g.note("Try")
		s := "try {" + g.block(d-1) + "} catch "
		if g.r.Bool() {
			s += g.ident() + " "
		}
		s += "{" + g.block(d-1) + "}"
		if g.r.Bool() {
			s += " finally {" + g.block(d-1) + "}"
		}
		return s
	case 14:
		g.note("Go")
		return "go " + g.ident() + "(" + g.exprs(g.r.Intn(3), d-1) + ")"
	case 15:
		g.note("Defer")
		if g.r.Bool() {
			return "defer " + g.ident() + "(" + g.exprs(g.r.Intn(3), d-1) + ")"
		}
		return "defer func(){" + g.block(d-1) + "}()"
	case 16:
		g.note("Delete")
		if g.r.Bool() {
			return "delete(" + g.expr(d-1) + ")"
		}
		return "delete(" + g.expr(d-1) + ", " + g.expr(d-1) + ")"
	case 17:
		g.note("Close")
		return "close(" + g.expr(d-1) + ")"
	case 18, 19:
		g.note("If")
		s := "if " + g.expr(d-1) + " {" + g.block(d-1) + "}"
		for g.r.Chance(1, 3) {
			s += " else if " + g.expr(d-1) + " {" + g.block(d-1) + "}"
		}
		if g.r.Bool() {
			s += " else {" + g.block(d-1) + "}"
		}
		return s
	case 20:
		g.note("Loop")
		if g.r.Bool() {
			return "for {" + g.block(d-1) + "}"
		}
		return "for " + g.expr(d-1) + " {" + g.block(d-1) + "}"
	case 21, 22:
		g.note("ForIn")
		v := g.ident()
		if g.r.Chance(1, 3) {
			v += ", " + g.ident()
		}
		return "for " + v + " in " + g.expr(d-1) + " {" + g.block(d-1) + "}"
	case 23, 24:
		g.note("CFor")
		init, cond, post := "", "", ""
		if g.r.Bool() {
			init = g.ident() + " = " + g.operand(d-1)
		}
		if g.r.Bool() {
			cond = " " + g.expr(d-1)
		}
		if g.r.Bool() {
			post = " " + g.ident() + "++"
		}
		return "for " + init + ";" + cond + ";" + post + " {" + g.block(d-1) + "}"
	case 25, 26:
		g.note("Switch")
		s := "switch " + g.expr(d-1) + " {\n"
		n := g.r.Intn(3)
		for i := 0; i < n; i++ {
			s += "case " + g.exprs(1+g.r.Intn(2), d-1) + ":" + g.block(d-1) + "\n"
		}
		if g.r.Bool() {
			s += "default:" + g.block(d-1) + "\n"
		}
		return s + "}"
	case 27:
		g.note("ChanStmt")
		if g.r.Bool() {
			return g.ident() + ", " + g.ident() + " = <- " + g.ident()
		}
		return g.ident() + " = <- " + g.ident()
	}
	g.note("ExprStmt")
	return g.expr(d)
}

func (g *srcGen) program(d int) string {
	n := 1 + g.r.Intn(4)
	var p []string
	for i := 0; i < n; i++ {
		p = append(p, g.stmt(d))
	}
	return strings.Join(p, "\n")
}
