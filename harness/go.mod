module verifharness

go 1.23

require github.com/mattn/anko v0.0.0

replace github.com/mattn/anko => /repo
