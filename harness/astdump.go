package main

// Dump of a parsed tree as the S-expression decoded by coq/Interp/InterpDriver.v:
// (KindName field ...) with the fields of the node struct in declaration order.

import (
	"fmt"
	"math"
	"reflect"
	"strings"

	anko "github.com/mattn/anko/ast"
)

// child fields that may be nil in a parser-produced tree: dumped as () / (X)
var astOptional = map[string]bool{
	"IfStmt.Then": true, "IfStmt.Else": true, "TryStmt.Try": true, "TryStmt.Catch": true, "TryStmt.Finally": true,
	"ForStmt.Stmt": true, "CForStmt.Stmt1": true, "CForStmt.Expr2": true, "CForStmt.Expr3": true, "CForStmt.Stmt": true,
	"LoopStmt.Expr": true, "LoopStmt.Stmt": true, "ModuleStmt.Stmt": true, "SwitchStmt.Default": true,
	"SwitchCaseStmt.Stmt": true, "DeleteStmt.Key": true, "ChanStmt.LHS": true, "ChanStmt.OkExpr": true,
	"SliceExpr.Begin": true, "SliceExpr.End": true, "SliceExpr.Cap": true, "FuncExpr.Stmt": true,
	"ChanExpr.LHS": true, "MakeExpr.LenExpr": true, "MakeExpr.CapExpr": true,
}

var typeStructPtr = reflect.TypeOf((*anko.TypeStruct)(nil))
var reflectValueT = reflect.TypeOf(reflect.Value{})

func dumpTypeStruct(t *anko.TypeStruct) string {
	if t == nil {
		return "()"
	}
	var env, names, types []string
	for _, e := range t.Env {
		env = append(env, sxStr(e))
	}
	for _, n := range t.StructNames {
		names = append(names, sxStr(n))
	}
	for _, st := range t.StructTypes {
		// struct field types are mandatory: strip the option wrapper
		inner := dumpTypeStruct(st)
		types = append(types, strings.TrimSuffix(strings.TrimPrefix(inner, "("), ")"))
	}
	body := sxList(sxInt(int(t.Kind)), sxList(env...), sxStr(t.Name), sxInt(t.Dimensions),
		dumpTypeStruct(t.SubType), dumpTypeStruct(t.Key), sxList(names...), sxList(types...))
	return "(" + body + ")"
}

func dumpLiteral(v reflect.Value) string {
	if !v.IsValid() {
		return "(invalid)"
	}
	if v.Kind() == reflect.Interface {
		if v.IsNil() {
			return "(nil)"
		}
		v = v.Elem()
	}
	switch v.Kind() {
	case reflect.Bool:
		return sxList("bool", sxBool(v.Bool()))
	case reflect.Int64:
		return sxList("int", fmt.Sprint(v.Int()))
	case reflect.Float64:
		return sxList("float", fmt.Sprint(math.Float64bits(v.Float())))
	case reflect.String:
		return sxList("str", sxStr(v.String()))
	}
	return "(other " + v.Kind().String() + ")"
}

// dumpNode returns the S-expression of a node (a pointer to a node struct).
func dumpNode(n interface{}) string {
	v := reflect.ValueOf(n)
	if !v.IsValid() || (v.Kind() == reflect.Ptr && v.IsNil()) {
		return "()"
	}
	t := v.Type().Elem()
	s := v.Elem()
	parts := []string{t.Name()}
	for i := 0; i < t.NumField(); i++ {
		f := t.Field(i)
		if f.Anonymous {
			continue
		}
		fv := s.Field(i)
		key := t.Name() + "." + f.Name
		switch {
		case f.Type == reflectValueT:
			if t.Name() == "LiteralExpr" {
				parts = append(parts, dumpLiteral(fv.Interface().(reflect.Value)))
			} else {
				parts = append(parts, "()") // CallExpr.Func: never set by the parser
			}
		case f.Type == typeStructPtr:
			parts = append(parts, dumpTypeStruct(fv.Interface().(*anko.TypeStruct)))
		case f.Type.Kind() == reflect.String:
			parts = append(parts, sxStr(fv.String()))
		case f.Type.Kind() == reflect.Bool:
			parts = append(parts, sxBool(fv.Bool()))
		case f.Type.Kind() == reflect.Slice && f.Type.Elem().Kind() == reflect.String:
			var ss []string
			for j := 0; j < fv.Len(); j++ {
				ss = append(ss, sxStr(fv.Index(j).String()))
			}
			parts = append(parts, sxList(ss...))
		case f.Type.Kind() == reflect.Slice && f.Type.Elem().Kind() == reflect.Interface:
			var ss []string
			for j := 0; j < fv.Len(); j++ {
				e := fv.Index(j)
				if e.IsNil() {
					continue
				}
				ss = append(ss, dumpNode(e.Interface()))
			}
			parts = append(parts, sxList(ss...))
		case f.Type.Kind() == reflect.Interface:
			isNil := fv.IsNil() || (fv.Elem().Kind() == reflect.Ptr && fv.Elem().IsNil())
			if astOptional[key] {
				if isNil {
					parts = append(parts, "()")
				} else {
					parts = append(parts, "("+dumpNode(fv.Interface())+")")
				}
			} else if isNil {
				parts = append(parts, "(missing)")
			} else {
				parts = append(parts, dumpNode(fv.Interface()))
			}
		default:
			parts = append(parts, "(field "+f.Type.String()+")")
		}
	}
	return sxList(parts...)
}

// collectLiterals gathers the string and float literals of a tree (oracle keys)
func collectLiterals(n interface{}, strs map[string]bool, floats map[uint64]bool) {
	v := reflect.ValueOf(n)
	if !v.IsValid() || (v.Kind() == reflect.Ptr && v.IsNil()) {
		return
	}
	if lit, ok := n.(*anko.LiteralExpr); ok {
		l := lit.Literal
		if l.IsValid() {
			if l.Kind() == reflect.Interface && !l.IsNil() {
				l = l.Elem()
			}
			switch l.Kind() {
			case reflect.String:
				strs[l.String()] = true
			case reflect.Float64:
				floats[math.Float64bits(l.Float())] = true
			}
		}
		return
	}
	_, groups := astChildren(n)
	for _, g := range groups {
		for _, c := range g {
			collectLiterals(c, strs, floats)
		}
	}
}
