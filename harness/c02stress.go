package main

// C02 under real time and real parallelism: scripts blocked on (or racing for) channel operations when
// the context is cancelled.  Each trial starts K ExecuteContext calls on one shared channel, lets a
// host goroutine serve them for a moment, stops serving, cancels, and requires every call to return
// "execution interrupted" within 2 s.  What the counting context of the interp harness cannot reach:
// a script blocked inside a channel operation, and senders that run truly in parallel.

import (
	"strings"
	"context"
	"encoding/json"
	"fmt"
	"os"
	"path/filepath"
	"runtime"
	"time"

	"github.com/mattn/anko/env"
	"github.com/mattn/anko/vm"
)

type c02Scenario struct {
	Name   string `json:"name"`
	Src    string `json:"src"`
	Cap    int    `json:"cap"`
	K      int    `json:"k"`
	Serve  string `json:"serve"` // what the host does with the channel meanwhile: drain, feed, none
	Lib    string `json:"lib,omitempty"` // run first, with its own (never cancelled) context, on the same environment
	MayFinish bool `json:"may_finish,omitempty"` // the script may also end by itself: what is required is that the call returns
	Trials int    `json:"trials"`
	Bad    int    `json:"bad"`
	First  string `json:"first_failure,omitempty"`
}

func c02Trial(sc *c02Scenario, trial int) string {
	ch := make(chan int64, sc.Cap)
	ctx, cancel := context.WithCancel(context.Background())
	defer cancel()
	type res struct {
		err error
	}
	done := make(chan res, sc.K)
	for i := 0; i < sc.K; i++ {
		go func() {
			e := env.NewEnv()
			e.Define("ch", ch)
			if sc.Lib != "" {
				if _, lerr := vm.ExecuteContext(context.Background(), e, nil, sc.Lib); lerr != nil {
					done <- res{fmt.Errorf("library failed: %v", lerr)}
					return
				}
			}
			_, err := vm.ExecuteContext(ctx, e, nil, sc.Src)
			done <- res{err}
		}()
	}
	stop := make(chan struct{})
	served := make(chan struct{})
	go func() {
		defer close(served)
		for {
			switch sc.Serve {
			case "drain":
				select {
				case <-ch:
				case <-stop:
					return
				}
			case "feed":
				select {
				case ch <- 1:
				case <-stop:
					return
				}
			default:
				<-stop
				return
			}
		}
	}()
	time.Sleep(time.Duration(200+trial%7*150) * time.Microsecond)
	close(stop)
	<-served
	time.Sleep(time.Duration(50+trial%5*60) * time.Microsecond)
	cancel()
	deadline := time.After(2 * time.Second)
	for got := 0; got < sc.K; got++ {
		select {
		case r := <-done:
			if sc.MayFinish {
				continue
			}
			if r.err == nil || r.err.Error() != "execution interrupted" {
				return fmt.Sprintf("trial %d: a call returned %v instead of the error \"execution interrupted\"", trial, r.err)
			}
		case <-deadline:
			return fmt.Sprintf("trial %d: only %d of %d ExecuteContext calls returned within 2 s of the cancellation", trial, got, sc.K)
		}
	}
	return ""
}

func c02Stress(n int, outDir string) error {
	prev := runtime.GOMAXPROCS(0)
	if prev < 4 {
		runtime.GOMAXPROCS(4)
	}
	defer runtime.GOMAXPROCS(prev)
	scs := []*c02Scenario{
		{Name: "senders into one buffered channel, receiver goes away", Src: "for { ch <- 1 }", Cap: 1, K: 8, Serve: "drain"},
		{Name: "senders into a two-slot channel, receiver goes away", Src: "for { ch <- 1 }", Cap: 2, K: 6, Serve: "drain"},
		{Name: "senders into an unbuffered channel, receiver goes away", Src: "for { ch <- 1 }", Cap: 0, K: 4, Serve: "drain"},
		{Name: "receivers on one channel, sender goes away", Src: "for { x = (<- ch) }", Cap: 1, K: 6, Serve: "feed"},
		{Name: "two-value receivers, sender goes away", Src: "for { x, ok = <- ch }", Cap: 0, K: 4, Serve: "feed"},
		{Name: "for-in over a channel that is never closed", Src: "for x in ch { }", Cap: 1, K: 4, Serve: "feed"},
		{Name: "senders inside script functions and try blocks", Src: "func put(c) { try { c <- 1 } catch e { } }\nfor { put(ch) }", Cap: 1, K: 6, Serve: "drain"},
		{Name: "script goroutines sending, main receiving its own channel", Src: "d = make(chan int64)\ngo func() { for { ch <- 1 } }()\ngo func() { for { ch <- 2 } }()\nx = (<- d)", Cap: 1, K: 3, Serve: "drain"},
		// functions defined by an earlier run on the same environment (a library loaded once), called by the run that is cancelled
		{Name: "library function without parameters spins", Lib: "func spin() { for { } }", Src: "spin()", Cap: 1, K: 2, Serve: "none"},
		{Name: "library function with two parameters spins", Lib: "func spin(a, b) { for { a = b } }", Src: "spin(1, 2)", Cap: 1, K: 2, Serve: "none"},
		{Name: "library function with five parameters spins", Lib: "func spin(a, b, c, d, e) { for { a = e } }", Src: "spin(1, 2, 3, 4, 5)", Cap: 1, K: 2, Serve: "none"},
		{Name: "variadic library function spins", Lib: "func spin(xs...) { for { } }", Src: "spin(1, 2)", Cap: 1, K: 2, Serve: "none"},
		{Name: "variadic library function blocked on a receive", Lib: "func wait(xs...) { return (<- ch) }", Src: "wait(1)", Cap: 0, K: 2, Serve: "none"},
		{Name: "variadic library function called inside try", Lib: "func spin(xs...) { for i = 0; true; i++ { } }", Src: "try { spin() } catch e { }; for { }", Cap: 1, K: 2, Serve: "none"},
		{Name: "library closure of five parameters recursing", Lib: "f = func(a, b, c, d, e) { return f(a, b, c, d, e + 0) }", Src: "func g() { return 1 }; for { g() }", Cap: 1, K: 2, Serve: "none"},
		// values that refer to themselves must not send a conversion of the interpreter into an endless loop no cancellation can reach
		{Name: "self-referencing pointer as a condition", Src: "x = nil; p = &x; *p = p; if p { 1 }", Cap: 1, K: 1, Serve: "none", MayFinish: true},
		{Name: "self-referencing pointer as a number", Src: "x = nil; p = &x; *p = p; r = (p + 1) ?? 0; r", Cap: 1, K: 1, Serve: "none", MayFinish: true},
		{Name: "self-referencing pointer as an index", Src: "x = nil; p = &x; *p = p; r = ([1, 2][p]) ?? 0; r", Cap: 1, K: 1, Serve: "none", MayFinish: true},
		{Name: "self-referencing pointer in a loop condition", Src: "x = nil; p = &x; *p = p; for p { break }", Cap: 1, K: 1, Serve: "none", MayFinish: true},
		{Name: "self-referencing pointer as a repeat count", Src: "x = nil; p = &x; *p = p; r = (\"a\" * p) ?? 0; r", Cap: 1, K: 1, Serve: "none", MayFinish: true},
		{Name: "two pointers referring to each other", Src: "x = nil; y = nil; p = &x; q = &y; *p = q; *q = p; r = (!p) ?? 0; r", Cap: 1, K: 1, Serve: "none", MayFinish: true},
		{Name: "nobody serves: blocked from the start", Src: "ch <- 1; ch <- 2; ch <- 3", Cap: 1, K: 3, Serve: "none"},
	}
	// a self-referencing pointer (the stock example of a value whose layers never end) in every operand position:
	// whatever the construct makes of it - a value, an error - the call returns
	for _, f := range []struct{ name, code string }{
		{"for-in subject", "for v in p { }"}, {"for-in subject (key, value)", "for k, v in p { }"}, {"switch subject", "switch p {\ncase 1: 1\n}"},
		{"case value", "switch 1 {\ncase p: 1\n}"}, {"index subject", "p[0]"}, {"slice subject", "p[0:1]"}, {"slice bound", "[1, 2][p:]"}, {"member subject", "p.k"},
		{"call subject", "p()"}, {"call argument of a Go function", "len(p)"}, {"keys", "keys(p)"}, {"spread", "func(a) { }(p...)"}, {"in right", "1 in p"},
		{"in left", "p in [1]"}, {"negation", "-p"}, {"bit not", "^p"}, {"comparison", "p == p"}, {"ordering", "p < 1"}, {"string concatenation", "\"s\" + p"},
		{"list concatenation", "[1] + p"}, {"shift", "1 << p"}, {"ternary", "p ? 1 : 2"}, {"logical and", "p && true"}, {"receive", "<- p"}, {"send", "p <- 1"},
		{"send operand", "c = make(chan interface, 1); c <- p"}, {"close", "close(p)"}, {"delete", "delete(p, 1)"}, {"make length", "make([]int64, p)"},
		{"typed store", "t = make([]int64, 1); t[0] = p"}, {"map key", "{p: 1}"}, {"map index", "{1: 2}[p]"}, {"index assignment", "p[0] = 1"},
		{"member assignment", "p.k = 1"}, {"dereference chain", "***p"}, {"increment", "p++"}, {"compound assignment", "p += 1"}, {"throw", "throw p"},
		{"conversion builtin", "toInt(p)"}, {"string builtin", "toString(p)"}, {"typed literal element", "[]int64{p}"}, {"go call argument", "go func(a) { }(p)"},
		{"defer call argument", "func() { defer func(a) { }(p) }()"}, {"return", "func() { return p, p }()"}, {"var", "var a, b = p, p"},
	} {
		scs = append(scs, &c02Scenario{Name: "self-referencing pointer: " + f.name + ", in an endless loop", Cap: 1, K: 1, Serve: "none",
			Src: "x = nil; p = &x; *p = p; for { try { " + f.code + " } catch e { } }"})
	}
	for _, sc := range scs {
		for t := 0; t < n; t++ {
			if strings.HasPrefix(sc.Name, "self-referencing pointer: ") && t >= 3 {
				break
			}
			sc.Trials++
			if msg := c02Trial(sc, t); msg != "" {
				sc.Bad++
				if sc.First == "" {
					sc.First = msg
				}
				if sc.Bad >= 2 {
					break // hung goroutines pile up; two failures say enough
				}
			}
		}
	}
	b, _ := json.Marshal(scs)
	return os.WriteFile(filepath.Join(outDir, "c02stress.json"), b, 0o644)
}
