package main

// splitmix64: every random choice of every generator derives from one seed.
type Rand struct{ s uint64 }

func NewRand(seed uint64, stream string) *Rand {
	r := &Rand{s: seed*0x9E3779B97F4A7C15 + 0x1234567}
	for _, c := range []byte(stream) {
		r.s = (r.s ^ uint64(c)) * 0x100000001B3
		r.Next()
	}
	return r
}

func (r *Rand) Next() uint64 {
	r.s += 0x9E3779B97F4A7C15
	z := r.s
	z = (z ^ (z >> 30)) * 0xBF58476D1CE4E5B9
	z = (z ^ (z >> 27)) * 0x94D049BB133111EB
	return z ^ (z >> 31)
}

func (r *Rand) Intn(n int) int {
	if n <= 0 {
		return 0
	}
	return int(r.Next() % uint64(n))
}

func (r *Rand) Bool() bool { return r.Next()&1 == 1 }

// Chance returns true with probability num/den.
func (r *Rand) Chance(num, den int) bool { return r.Intn(den) < num }

// Pick returns an index according to integer weights.
func (r *Rand) Pick(weights []int) int {
	t := 0
	for _, w := range weights {
		t += w
	}
	x := r.Intn(t)
	for i, w := range weights {
		if x < w {
			return i
		}
		x -= w
	}
	return len(weights) - 1
}

func (r *Rand) Fork(stream string) *Rand { return NewRand(r.Next(), stream) }
