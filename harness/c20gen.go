package main

// C20: every operation template x operand value x provenance chain.  The operand is obtained through
// a chain of "hops"; the result must be what the plain-variable provenance gives.

import (
	"fmt"
	"strings"
)

type c20Hop struct {
	name string
	wrap func(x string) string // expression yielding the value of expression x through the hop
}

var c20Hops = []c20Hop{
	{"elem", func(x string) string { return "[" + x + "][0]" }},
	{"entry", func(x string) string { return "{\"k\": " + x + "}[\"k\"]" }},
	{"member", func(x string) string { return "{\"k\": " + x + "}.k" }},
	{"scall", func(x string) string { return "func() { return " + x + " }()" }},
	{"gocall", func(x string) string { return "hid(" + x + ")" }},
	{"paren", func(x string) string { return "(" + x + ")" }},
	{"ternary", func(x string) string { return "(true ? " + x + " : 0)" }},
	{"coalesce", func(x string) string { return "(nil ?? " + x + ")" }},
	{"param", func(x string) string { return "func(p) { return p }(" + x + ")" }},
	{"elem2", func(x string) string { return "[0, " + x + "][1]" }},
}

var c20Values = []struct{ name, lit string }{
	{"int", "5"}, {"zero", "0"}, {"float", "2.5"}, {"str", "\"ab\""}, {"numstr", "\"3\""}, {"true", "true"}, {"nil", "nil"},
	{"slice", "[1, 2, 3]"}, {"emptyslice", "[]"}, {"map", "{\"k\": 1}"}, {"func", "func(a) { return 7 }"},
	{"nested", "[[1], [2]]"}, {"bigint", "9007199254740993"}, {"negbig", "-9007199254740993"}, {"ptr", "new(int64)"},
}

// templates: %s is the operand expression; statements are wrapped so that the result is an expression value
var c20Templates = []struct{ name, code string }{
	{"neg", "r = (-%s) ?? \"E\""}, {"not", "r = (!%s) ?? \"E\""}, {"bitnot", "r = (^%s) ?? \"E\""},
	{"add-r", "r = (%s + 1) ?? \"E\""}, {"add-l", "r = (1 + %s) ?? \"E\""}, {"sub", "r = (%s - 1) ?? \"E\""}, {"mul", "r = (%s * 2) ?? \"E\""},
	{"div", "r = (%s / 2) ?? \"E\""}, {"mod", "r = (%s %% 3) ?? \"E\""}, {"shl", "r = (%s << 1) ?? \"E\""}, {"and", "r = (%s & 1) ?? \"E\""},
	{"or", "r = (%s | 1) ?? \"E\""}, {"eq", "r = (%s == 5) ?? \"E\""}, {"lt", "r = (%s < 3) ?? \"E\""}, {"land", "r = (%s && true) ?? \"E\""},
	{"lor", "r = (%s || false) ?? \"E\""}, {"concat", "r = (\"s\" + %s) ?? \"E\""}, {"append", "r = ([0] + %s) ?? \"E\""},
	{"append-l", "r = (%s + [9]) ?? \"E\""},
	// the operand on the right of every binary operator, and next to the neighbours of +-(2^53+1) that float64 cannot tell apart
	{"sub-r", "r = (10 - %s) ?? \"E\""}, {"mul-r", "r = (2 * %s) ?? \"E\""}, {"div-r", "r = (10 / %s) ?? \"E\""}, {"mod-r", "r = (10 %% %s) ?? \"E\""},
	{"shl-r", "r = (1 << %s) ?? \"E\""}, {"and-r", "r = (7 & %s) ?? \"E\""}, {"eq-r", "r = (5 == %s) ?? \"E\""}, {"ne-r", "r = (5 != %s) ?? \"E\""},
	{"lt-r", "r = (3 < %s) ?? \"E\""}, {"ge-r", "r = (3 >= %s) ?? \"E\""}, {"land-r", "r = (true && %s) ?? \"E\""}, {"lor-r", "r = (false || %s) ?? \"E\""},
	{"lt-big-r", "r = (9007199254740992 < %s) ?? \"E\""}, {"le-big-r", "r = (9007199254740994 <= %s) ?? \"E\""},
	{"gt-big-r", "r = (9007199254740994 > %s) ?? \"E\""}, {"ge-big-r", "r = (9007199254740992 >= %s) ?? \"E\""},
	{"eq-big-r", "r = (9007199254740992 == %s) ?? \"E\""}, {"ne-big-r", "r = (9007199254740992 != %s) ?? \"E\""},
	{"gt-negbig-r", "r = (-9007199254740992 > %s) ?? \"E\""}, {"le-negbig-r", "r = (-9007199254740992 <= %s) ?? \"E\""},
	{"lt-big-l", "r = (%s < 9007199254740994) ?? \"E\""}, {"ge-big-l", "r = (%s >= 9007199254740994) ?? \"E\""},
	{"gt-big-l", "r = (%s > 9007199254740992) ?? \"E\""}, {"eq-big-l", "r = (%s == 9007199254740992) ?? \"E\""},
	{"lt-negbig-l", "r = (%s < -9007199254740992) ?? \"E\""}, {"sub-big-r", "r = (9007199254740992 - %s) ?? \"E\""},
	{"index", "r = (%s[0]) ?? \"E\""}, {"index-by", "r = ([7, 8, 9][%s]) ?? \"E\""}, {"slice", "r = (%s[0:1]) ?? \"E\""},
	{"slice-by", "r = ([7, 8, 9][%s:]) ?? \"E\""}, {"len", "r = len(%s) ?? \"E\""}, {"in-r", "r = (1 in %s) ?? \"E\""},
	{"in-l", "r = (%s in [5, \"ab\"]) ?? \"E\""}, {"call", "r = %s(1) ?? \"E\""}, {"spread", "r = func(a, b, c) { return b }(%s...) ?? \"E\""},
	{"spread-v", "r = func(a...) { return len(a) }(%s...) ?? \"E\""}, {"spread-go", "r = hvar(%s...) ?? \"E\""},
	{"member", "r = (%s.k) ?? \"E\""}, {"mapkey", "r = ({5: \"five\", \"ab\": \"s\"}[%s]) ?? \"E\""},
	{"forin", "r = []; try { for x in %s { r += x } } catch e { r = \"E\" }"},
	{"switch", "r = 0; switch %s {\ncase 5: r = 1\ncase \"ab\": r = 2\ncase nil: r = 3\ndefault: r = 9\n}"},
	{"case", "r = 0; switch 5 {\ncase %s: r = 1\ndefault: r = 9\n}"},
	{"if", "r = 0; if %s { r = 1 } else { r = 2 }"}, {"loopcond", "r = 0; for %s { r = r + 1; if r > 2 { break } }"},
	{"loopcond-paren", "r = 0; for (%s) { r = r + 1; if r > 2 { break } }"}, // `for {"k": v}.k {` does not parse: the brace opens the loop body
	{"ternary", "r = (%s ? 1 : 2) ?? \"E\""}, {"coalesce", "r = (%s ?? 1)"},
	{"throw", "r = 0; try { throw %s } catch e { r = \"thrown\" }"},
	{"assign-index", "t = %s; r = \"ok\"; try { t[0] = 9; r = t } catch e { r = \"E\" }"},
	{"assign-member", "t = %s; r = \"ok\"; try { t.z = 9; r = t } catch e { r = \"E\" }"},
	{"delete", "t = %s; r = \"ok\"; try { delete(t, \"k\"); r = t } catch e { r = \"E\" }"},
	{"defer", "r = \"ok\"; try { func() { defer %s(1) }() } catch e { r = \"E\" }"},
	{"member-K", "r = (%s.K) ?? \"E\""}, {"addr-member", "t = %s; p = &t; r = (p.k) ?? \"E\""}, {"addr-member-K", "t = %s; p = &t; r = (p.K) ?? \"E\""},
	{"addr-deref", "t = %s; p = &t; r = (*p == t) ?? \"E\""},
	// a store through the address of a variable: whether it reaches the variable does not depend on where the variable's value came from
	{"addr-store", "t = %s; p = &t; r = \"ok\"; try { *p = 7; r = [t] } catch e { r = \"E\" }"},
	{"addr-store-param", "r = func(t) { p = &t; *p = 7; return [t] }(%s) ?? \"E\""},
	{"addr-store-var", "var t = %s; p = &t; r = \"ok\"; try { *p = 7; r = [t] } catch e { r = \"E\" }"},
	// a field (or entry) assigned through a variable, and through a pointer to the variable, wherever the value came from
	// a character (or more) stored into a string held by a variable: the same new string whether the variable's string sits in an
	// addressable cell (read from a typed slot) or not
	{"assign-strindex-multi", "t = %s; r = \"ok\"; try { t[1] = \"xyz\"; r = [t] } catch e { r = \"E\" }"},
	{"assign-strindex-empty", "t = %s; r = \"ok\"; try { t[1] = \"\"; r = [t] } catch e { r = \"E\" }"},
	{"assign-strindex-one", "t = %s; r = \"ok\"; try { t[0] = \"q\"; r = [t] } catch e { r = \"E\" }"},
	{"assign-strindex-len", "t = %s; r = \"ok\"; try { t[len(t)] = \"xyz\"; r = [t] } catch e { r = \"E\" }"},
	// the operand itself in target position: a field or an entry of it (an element store into a string needs a place to put the
	// new string, which a temporary is not - that is about places, not about values, and is left out)
	{"member-assign-direct", "r = \"ok\"; try { (%s).K = 9 } catch e { r = \"E\" }"},
	{"member-assign-bare", "r = \"ok\"; try { %s.K = 9 } catch e { r = \"E\" }"},
	{"assign-member-K", "t = %s; r = \"ok\"; try { t.K = 9; r = [t.K] } catch e { r = \"E\" }"},
	{"addr-assign-member-K", "t = %s; p = &t; r = \"ok\"; try { p.K = 9; r = [p.K] } catch e { r = \"E\" }"},
	{"delete-flag", "gq = 1; func() { delete(\"gq\", %s) }(); r = (gq ?? \"gone\")"},
	{"make-type", "r = \"ok\"; try { make(type TQ, %s); r = [make(TQ)] } catch e { r = \"E\" }"},
	{"defer-arg", "r = 0; func() { defer func(a) { r = [a] }(%s) }(); r"}, {"defer-go-arg", "r = 0; func() { defer probe(%s) }(); r"},
	{"var", "var q = %s; r = q"}, {"multi", "q, w = (true ? %s : nil); r = [q, w ?? \"undef\"]"},
	{"return", "r = func() { return %s, 1 }()"}, {"arg-go", "r = probe(%s)"}, {"arg2", "r = probe2(1, %s)"},
	{"var-go", "r = hvar(1, %s)"},
	{"lt-big", "r = (%s < 9007199254740994) ?? \"E\""}, {"gt-big", "r = (%s > 9007199254740992) ?? \"E\""},
	{"le-big", "r = (%s <= 9007199254740992) ?? \"E\""}, {"ge-big-l", "r = (9007199254740994 >= %s) ?? \"E\""},
	{"lt-negbig", "r = (-9007199254740994 < %s) ?? \"E\""}, {"neq", "r = (%s != 5) ?? \"E\""}, {"eq-float", "r = (%s == 2.5) ?? \"E\""},
	{"repeat", "r = \"ok\"; try { r = \"ab\" * %s } catch e { r = \"E\" }"}, {"slice-lo", "r = ([7, 8, 9][%s:2]) ?? \"E\""},
	{"str-index", "r = (\"abc\"[%s]) ?? \"E\""}, {"str-slice", "r = (\"abcd\"[%s:3]) ?? \"E\""}, {"lit-key", "r = \"ok\"; try { r = {%s: 1} } catch e { r = \"E\" }"},
	{"slice-hi", "r = ([7, 8, 9][0:%s]) ?? \"E\""}, {"slice-cap", "r = ([7, 8, 9][0:1:%s]) ?? \"E\""},
	{"delete-key", "t = {5: 1, \"ab\": 2}; r = \"ok\"; try { delete(t, %s); r = t } catch e { r = \"E\" }"},
	{"in-self", "r = (%s in [v]) ?? \"E\""}, {"in-self-r", "r = (v in [%s]) ?? \"E\""}, {"switch-self", "r = 0; switch %s {\ncase v: r = 1\ndefault: r = 9\n}"},
	{"case-self", "r = 0; switch v {\ncase %s: r = 1\ndefault: r = 9\n}"}, {"in-self-wrapped", "r = (%s in [[v][0]]) ?? \"E\""},
	{"eq-self", "r = (%s == v) ?? \"E\""}, {"neq-self", "r = (v != %s) ?? \"E\""}, {"deref", "r = \"ok\"; try { r = *%s } catch e { r = \"E\" }"}, {"tostr", "r = (\"\" + %s) ?? \"E\""}, {"keys-like", "r = []; try { for k, v in %s { r += v } } catch e { r = \"E\" }"},
}

func c20Chains(maxLen int) [][]int {
	var out [][]int
	var rec func(cur []int)
	rec = func(cur []int) {
		if len(cur) > 0 {
			out = append(out, append([]int{}, cur...))
		}
		if len(cur) == maxLen {
			return
		}
		for i := range c20Hops {
			rec(append(cur, i))
		}
	}
	rec(nil)
	return out
}

type c20Prog struct {
	src  string
	tags []string // template, value, chain
}

// values of named non-struct Go types that carry methods, and what is done with them; these programs
// are judged on the implementation alone (tag impl-only): the model has no such values
var c20MethodValues = []struct{ name, lit string }{{"duration", "mkdur()"}, {"urlvalues", "mkvals()"}, {"intslice", "mkints()"}, {"durptr", "mkptr()"}, {"array", "mkarr()"}, {"arrayofslices", "mkarrs()"}}
var c20MethodTemplates = []struct{ name, code string }{
	{"m-String", "r = (%s.String()) ?? \"E\""}, {"m-Get", "r = (%s.Get(\"k\")) ?? \"E\""}, {"m-Len", "r = (%s.Len()) ?? \"E\""},
	{"m-Seconds", "r = (%s.Seconds()) ?? \"E\""}, {"m-Encode", "r = (%s.Encode()) ?? \"E\""}, {"m-value", "f = %s.String; r = f() ?? \"E\""},
	{"m-len", "r = len(%s) ?? \"E\""}, {"m-index", "r = (%s[0]) ?? \"E\""}, {"m-key", "r = (%s[\"k\"]) ?? \"E\""}, {"m-member", "r = (%s.k) ?? \"E\""},
	{"m-forin", "r = []; try { for x in %s { r += x } } catch e { r = \"E\" }"}, {"m-add", "r = (%s + 1) ?? \"E\""}, {"m-tostr", "r = (\"\" + %s) ?? \"E\""},
	{"m-eq", "r = (%s == v) ?? \"E\""}, {"m-arg", "r = probe(%s)"}, {"m-deref", "r = \"ok\"; try { r = *%s } catch e { r = \"E\" }"},
	{"m-slice", "r = (%s[1:]) ?? \"E\""}, {"m-slice-hi", "r = (%s[:2]) ?? \"E\""}, {"m-slice3", "r = (%s[0:1:2]) ?? \"E\""}, {"m-append", "r = (%s + [9]) ?? \"E\""},
	{"m-append-l", "r = ([9] + %s) ?? \"E\""}, {"m-in", "r = (2 in %s) ?? \"E\""}, {"m-spread", "r = hvar(%s...) ?? \"E\""}, {"m-keys-like", "r = []; try { for k, x in %s { r += x } } catch e { r = \"E\" }"},
	{"m-store", "t = %s; r = \"ok\"; try { t[0] = 9; r = t } catch e { r = \"E\" }"},
}

// operations on typed make and channels (no model): sizes, send operands, channel operands
var c20ImplTemplates = []struct{ name, code string }{
	{"make-len", "r = \"ok\"; try { r = len(make([]int64, %s)) } catch e { r = \"E\" }"},
	{"make-cap", "r = \"ok\"; try { r = len(make([]int64, 0, %s)) } catch e { r = \"E\" }"},
	{"make-chan", "r = \"ok\"; try { c = make(chan int64, %s); r = \"made\" } catch e { r = \"E\" }"},
	{"chan-send", "c = make(chan interface, 1); r = \"ok\"; try { c <- %s; r = (<- c) } catch e { r = \"E\" }"},
	{"chan-send-typed", "c = make(chan int64, 1); r = \"ok\"; try { c <- %s; r = (<- c) } catch e { r = \"E\" }"},
	{"chan-use", "r = \"ok\"; try { %s <- 5; r = (<- %s) } catch e { r = \"E\" }"},
	{"chan-close", "r = \"ok\"; try { close(%s); r = \"closed\" } catch e { r = \"E\" }"},
	{"chan-forin", "r = []; try { q = %s; q <- 3; close(q); for x in q { r += x } } catch e { r = \"E\" }"},
	{"typed-store", "t = make([]int64, 1); r = \"ok\"; try { t[0] = %s; r = t[0] } catch e { r = \"E\" }"},
	{"typed-index", "t = []int64{7, 8, 9}; r = (t[%s]) ?? \"E\""},
}
var c20ImplValues = []struct{ name, lit string }{
	{"int", "3"}, {"zero", "0"}, {"float", "2.0"}, {"numstr", "\"2\""}, {"str", "\"ab\""}, {"true", "true"}, {"nil", "nil"}, {"neg", "-1"},
	{"chan", "make(chan int64, 2)"}, {"ichan", "make(chan interface, 2)"}, {"slice", "[1]"},
	{"filled", "func() { c = make(chan int64, 2); c <- 7; return c }()"}, // a channel holding a value: `out <- v` forwards it
}

// typed nil values (a nil pointer, map, slice and function of a declared type; not a nil channel: ranging over it blocks for ever), made in the script; the model has
// no typed containers, so these are judged by the provenance law on the implementation alone
var c20TypedNils = []struct{ name, lit string }{
	{"nilptr", "make(struct { A *int64 }).A"}, {"nilmap", "make(struct { A map[string]int64 }).A"}, {"nilslice", "make(struct { A []int64 }).A"},
	{"nilfunc", "make(struct { A func(int64) int64 }).A"}, {"niliface", "make(struct { A interface }).A"},
	{"typedzero", "make(struct { A int32 }).A"}, {"emptystruct", "make(struct { A struct { B int64 } }).A"}, {"structval", "make(struct { K int64, L []int64 })"},
	// strings that sit in an addressable cell: read from a typed slice element / a struct field
	{"typedint", "func() { a = make([]int64, 1); a[0] = 5; return a[0] }()"}, {"typedbool", "func() { a = make([]bool, 1); a[0] = true; return a[0] }()"},
	{"typedslice", "func() { a = make([][]int64, 1); a[0] = [1, 2]; return a[0] }()"}, {"typedmap", "func() { s = make(struct { M map[string]int64 }); s.M = {\"k\": 1}; return s.M }()"},
	{"typedstr", "func() { a = make([]string, 1); a[0] = \"abc\"; return a[0] }()"}, {"fieldstr", "func() { s = make(struct { S string }); s.S = \"abc\"; return s.S }()"},
}

func c20TypedNilPrograms(sample *Rand) []c20Prog {
	var out []c20Prog
	chains := c20Chains(2)
	for _, t := range c20Templates {
		if t.name == "loopcond" || t.name == "defer" || t.name == "call" || strings.HasPrefix(t.name, "spread") {
			continue // a nil function / channel operand there blocks or is covered by the untyped nil
		}
		for _, v := range c20TypedNils {
			base := "v = " + v.lit + "\n"
			out = append(out, c20Prog{base + fmt.Sprintf(t.code, "v") + "\nr", []string{t.name, v.name, "var", "impl-only"}})
			for _, ch := range chains {
				if len(ch) > 1 && !sample.Chance(10, 100) {
					continue
				}
				x := "v"
				var names []string
				for _, h := range ch {
					x = c20Hops[h].wrap(x)
					names = append(names, c20Hops[h].name)
				}
				out = append(out, c20Prog{base + fmt.Sprintf(t.code, x) + "\nr", []string{t.name, v.name, strings.Join(names, ">"), "impl-only"}})
			}
		}
	}
	return out
}

func c20ImplPrograms(sample *Rand) []c20Prog {
	var out []c20Prog
	chains := c20Chains(2)
	for _, t := range c20ImplTemplates {
		for _, v := range c20ImplValues {
			if strings.HasPrefix(t.name, "chan-send") && (v.name == "chan" || v.name == "ichan") {
				continue // `c <- v` with a channel on the right is a receive from v: it would block
			}
			base := "v = " + v.lit + "\n"
			nargs := strings.Count(t.code, "%s")
			fill := func(x string) string {
				if nargs == 2 {
					return fmt.Sprintf(t.code, x, x)
				}
				return fmt.Sprintf(t.code, x)
			}
			out = append(out, c20Prog{base + fill("v") + "\nr", []string{t.name, v.name, "var", "impl-only"}})
			for _, ch := range chains {
				if len(ch) > 1 && !sample.Chance(15, 100) {
					continue
				}
				x := "v"
				var names []string
				for _, h := range ch {
					x = c20Hops[h].wrap(x)
					names = append(names, c20Hops[h].name)
				}
				out = append(out, c20Prog{base + fill(x) + "\nr", []string{t.name, v.name, strings.Join(names, ">"), "impl-only"}})
			}
		}
	}
	return out
}

func c20MethodPrograms(sample *Rand) []c20Prog {
	var out []c20Prog
	chains := c20Chains(2)
	for _, t := range c20MethodTemplates {
		for _, v := range c20MethodValues {
			base := "v = " + v.lit + "\n"
			out = append(out, c20Prog{base + fmt.Sprintf(t.code, "v") + "\nr", []string{t.name, v.name, "var", "impl-only"}})
			for _, ch := range chains {
				if len(ch) > 1 && !sample.Chance(15, 100) {
					continue
				}
				x := "v"
				var names []string
				for _, h := range ch {
					x = c20Hops[h].wrap(x)
					names = append(names, c20Hops[h].name)
				}
				out = append(out, c20Prog{base + fmt.Sprintf(t.code, x) + "\nr", []string{t.name, v.name, strings.Join(names, ">"), "impl-only"}})
			}
		}
	}
	return out
}

func c20Programs(maxLen int, sample *Rand, limit int) []c20Prog {
	var out []c20Prog
	chains := c20Chains(maxLen)
	for _, t := range c20Templates {
		for _, v := range c20Values {
			base := "v = " + v.lit + "\n"
			out = append(out, c20Prog{base + fmt.Sprintf(t.code, "v") + "\nr", []string{t.name, v.name, "var"}})
			for _, ch := range chains {
				if len(ch) > 1 && limit > 0 && !sample.Chance(limit, 100) {
					continue
				}
				x := "v"
				var names []string
				for _, h := range ch {
					x = c20Hops[h].wrap(x)
					names = append(names, c20Hops[h].name)
				}
				out = append(out, c20Prog{base + fmt.Sprintf(t.code, x) + "\nr", []string{t.name, v.name, strings.Join(names, ">")}})
			}
			// the operand reaches the operation under a name bound by var / as a parameter (these bind the value as it
			// comes, without the unwrapping a plain assignment does)
			for h := -1; h < len(c20Hops); h++ {
				x, hn := "v", "var"
				if h >= 0 {
					x, hn = c20Hops[h].wrap("v"), c20Hops[h].name
				}
				code := fmt.Sprintf(t.code, "q")
				out = append(out, c20Prog{base + "var q = " + x + "\n" + code + "\nr", []string{t.name, v.name, hn + ">bind-var"}})
				out = append(out, c20Prog{base + "r = nil\nfunc(q) {\n" + code + "\n}(" + x + ")\nr", []string{t.name, v.name, hn + ">bind-param"}})
			}
		}
	}
	out = append(out, c20MethodPrograms(sample)...)
	out = append(out, c20ImplPrograms(sample)...)
	out = append(out, c20TypedNilPrograms(sample)...)
	return out
}
