package main

// C03: the real parser against the operator-table model.
//   c03 -gen gen : random and directed expression trees (S-expressions for the extracted model)
//                  + AnkoGen/GenPrec.v regenerated from parser/parser.go.y
//   c03 -gen run : -replay <driver output> : render the model's two spellings of each tree, parse
//                  them with the real parser, compare trees and values; emit token lists (from the
//                  real scanner) of the sources and of mutated sources for the model parser.

import (
	"bufio"
	"encoding/json"
	"fmt"
	"math"
	"os"
	"path/filepath"
	"regexp"
	"strconv"
	"strings"

	"github.com/mattn/anko/ast"
	"github.com/mattn/anko/env"
	"github.com/mattn/anko/parser"
	"github.com/mattn/anko/vm"
)

var c03OpText = []string{"?", "??", "||", "&&", "==", "!=", "<", "<=", ">", ">=", "+", "-", "|", "*", "/", "%", "<<", ">>", "&", "in", "!", "^"}
var c03Unops = []int{11, 20, 21, 18, 13}
var c03Idents = []string{"a", "b", "c", "d", "e", "f"}

type c03Tree struct {
	K    string     // A B T U C0 C1 C2 I M
	N    int        // atom / operator / member name
	Kids []*c03Tree // operands
}

func (t *c03Tree) sx() string {
	switch t.K {
	case "A":
		return fmt.Sprintf("(A %d)", t.N)
	case "B", "U":
		p := []string{t.K, fmt.Sprint(t.N)}
		for _, k := range t.Kids {
			p = append(p, k.sx())
		}
		return "(" + strings.Join(p, " ") + ")"
	case "M":
		return fmt.Sprintf("(M %s %d)", t.Kids[0].sx(), t.N)
	}
	p := []string{t.K}
	for _, k := range t.Kids {
		p = append(p, k.sx())
	}
	return "(" + strings.Join(p, " ") + ")"
}

func c03Gen(rnd *Rand, depth int) *c03Tree {
	if depth <= 0 || rnd.Chance(1, 5) {
		return &c03Tree{K: "A", N: rnd.Intn(len(c03Idents))}
	}
	sub := func() *c03Tree { return c03Gen(rnd, depth-1) }
	switch rnd.Pick([]int{12, 2, 3, 1, 1, 1, 2, 2}) {
	case 0:
		return &c03Tree{K: "B", N: 1 + rnd.Intn(19), Kids: []*c03Tree{sub(), sub()}}
	case 1:
		return &c03Tree{K: "T", Kids: []*c03Tree{sub(), sub(), sub()}}
	case 2:
		return &c03Tree{K: "U", N: c03Unops[rnd.Intn(len(c03Unops))], Kids: []*c03Tree{sub()}}
	case 3:
		return &c03Tree{K: "C0", Kids: []*c03Tree{sub()}}
	case 4:
		return &c03Tree{K: "C1", Kids: []*c03Tree{sub(), sub()}}
	case 5:
		return &c03Tree{K: "C2", Kids: []*c03Tree{sub(), sub(), sub()}}
	case 6:
		return &c03Tree{K: "I", Kids: []*c03Tree{sub(), sub()}}
	}
	return &c03Tree{K: "M", N: rnd.Intn(len(c03Idents)), Kids: []*c03Tree{sub()}}
}

func c03Directed() []*c03Tree {
	at := func(i int) *c03Tree { return &c03Tree{K: "A", N: i} }
	var out []*c03Tree
	bin := func(o int, l, r *c03Tree) *c03Tree { return &c03Tree{K: "B", N: o, Kids: []*c03Tree{l, r}} }
	tern := func(c, a, b *c03Tree) *c03Tree { return &c03Tree{K: "T", Kids: []*c03Tree{c, a, b}} }
	un := func(u int, t *c03Tree) *c03Tree { return &c03Tree{K: "U", N: u, Kids: []*c03Tree{t}} }
	// the complete pair matrix of binary operators, both groupings
	for o1 := 1; o1 <= 19; o1++ {
		for o2 := 1; o2 <= 19; o2++ {
			out = append(out, bin(o1, bin(o2, at(0), at(1)), at(2)), bin(o1, at(0), bin(o2, at(1), at(2))))
		}
		// with the ternary in every operand position and as the root
		out = append(out, bin(o1, tern(at(0), at(1), at(2)), at(3)), bin(o1, at(0), tern(at(1), at(2), at(3))),
			tern(bin(o1, at(0), at(1)), at(2), at(3)), tern(at(0), bin(o1, at(1), at(2)), at(3)), tern(at(0), at(1), bin(o1, at(2), at(3))))
		for _, u := range c03Unops {
			out = append(out, un(u, bin(o1, at(0), at(1))), bin(o1, un(u, at(0)), at(1)), bin(o1, at(0), un(u, at(1))))
		}
	}
	out = append(out, tern(tern(at(0), at(1), at(2)), at(3), at(4)), tern(at(0), tern(at(1), at(2), at(3)), at(4)), tern(at(0), at(1), tern(at(2), at(3), at(4))))
	// postfix under unary and unary under postfix, three-level nestings
	post := func(k string, f *c03Tree) *c03Tree {
		switch k {
		case "C0":
			return &c03Tree{K: "C0", Kids: []*c03Tree{f}}
		case "C1":
			return &c03Tree{K: "C1", Kids: []*c03Tree{f, at(4)}}
		case "C2":
			return &c03Tree{K: "C2", Kids: []*c03Tree{f, at(4), at(5)}}
		case "I":
			return &c03Tree{K: "I", Kids: []*c03Tree{f, at(4)}}
		}
		return &c03Tree{K: "M", N: 3, Kids: []*c03Tree{f}}
	}
	for _, k := range []string{"C0", "C1", "C2", "I", "M"} {
		for _, u := range c03Unops {
			out = append(out, un(u, post(k, at(0))), post(k, un(u, at(0))), un(u, un(u, post(k, at(0)))))
		}
		for o := 1; o <= 19; o++ {
			out = append(out, post(k, bin(o, at(0), at(1))), bin(o, post(k, at(0)), at(1)), bin(o, at(0), post(k, at(1))))
		}
		out = append(out, post(k, tern(at(0), at(1), at(2))), tern(post(k, at(0)), at(1), at(2)))
		for _, k2 := range []string{"C0", "C1", "C2", "I", "M"} {
			out = append(out, post(k, post(k2, at(0))))
		}
	}
	return out
}

// ---- rendering of model tokens ----
func c03Render(toks []string, compact bool) string {
	var sb strings.Builder
	prevOp := false
	for i, t := range toks {
		txt, isOp := "", false
		switch {
		case strings.HasPrefix(t, "a"):
			var n int
			fmt.Sscanf(t, "a%d", &n)
			txt = c03Idents[n%len(c03Idents)]
		case strings.HasPrefix(t, "o"):
			var n int
			fmt.Sscanf(t, "o%d", &n)
			txt, isOp = c03OpText[n], true
		case t == "lp":
			txt = "("
		case t == "rp":
			txt = ")"
		case t == "lb":
			txt = "["
		case t == "rb":
			txt = "]"
		case t == "dot":
			txt = "."
		case t == "comma":
			txt = ","
		case t == "colon":
			txt, isOp = ":", true
		}
		if i > 0 && (!compact || isOp && prevOp || txt == "in" || (i > 0 && strings.HasSuffix(sb.String(), "in"))) {
			sb.WriteByte(' ')
		}
		sb.WriteString(txt)
		prevOp = isOp
	}
	return sb.String()
}

// flatten "( (a 0) (o 10) lp ...)" into ["a0","o10","lp",...]
var c03TokRe = regexp.MustCompile(`\(a (\d+)\)|\(o (\d+)\)|lp|rp|lb|rb|dot|comma|colon`)

func c03ParseToks(s string) []string {
	var out []string
	for _, m := range c03TokRe.FindAllStringSubmatch(s, -1) {
		switch {
		case m[1] != "":
			out = append(out, "a"+m[1])
		case m[2] != "":
			out = append(out, "o"+m[2])
		default:
			out = append(out, m[0])
		}
	}
	return out
}

func c03TokSx(toks []string) string {
	var p []string
	for _, t := range toks {
		switch {
		case strings.HasPrefix(t, "a"):
			p = append(p, "(a "+t[1:]+")")
		case strings.HasPrefix(t, "o"):
			p = append(p, "(o "+t[1:]+")")
		default:
			p = append(p, t)
		}
	}
	return "(" + strings.Join(p, " ") + ")"
}

// ---- real tree -> model tree ----
func c03Ident(s string) (int, bool) {
	for i, n := range c03Idents {
		if n == s {
			return i, true
		}
	}
	return 0, false
}

func c03OpNum(s string) int {
	for i, n := range c03OpText {
		if n == s {
			return i
		}
	}
	return -1
}

func c03FromAst(e ast.Expr, keepParens bool) string {
	rec := func(x ast.Expr) string { return c03FromAst(x, keepParens) }
	bin := func(op string, l, r ast.Expr) string {
		return fmt.Sprintf("(B %d %s %s)", c03OpNum(op), rec(l), rec(r))
	}
	call := func(f string, args []ast.Expr, varArg bool) string {
		if varArg || len(args) > 2 {
			return "(X call)"
		}
		p := []string{fmt.Sprintf("C%d", len(args)), f}
		for _, a := range args {
			p = append(p, rec(a))
		}
		return "(" + strings.Join(p, " ") + ")"
	}
	switch x := e.(type) {
	case *ast.IdentExpr:
		if n, ok := c03Ident(x.Lit); ok {
			return fmt.Sprintf("(A %d)", n)
		}
		return "(X ident)"
	case *ast.ParenExpr:
		if keepParens {
			return "(P " + rec(x.SubExpr) + ")"
		}
		return rec(x.SubExpr)
	case *ast.OpExpr:
		switch o := x.Op.(type) {
		case *ast.AddOperator:
			return bin(o.Operator, o.LHS, o.RHS)
		case *ast.MultiplyOperator:
			return bin(o.Operator, o.LHS, o.RHS)
		case *ast.ComparisonOperator:
			return bin(o.Operator, o.LHS, o.RHS)
		case *ast.BinaryOperator:
			return bin(o.Operator, o.LHS, o.RHS)
		}
		return "(X op)"
	case *ast.NilCoalescingOpExpr:
		return bin("??", x.LHS, x.RHS)
	case *ast.IncludeExpr:
		return bin("in", x.ItemExpr, x.ListExpr)
	case *ast.TernaryOpExpr:
		return fmt.Sprintf("(T %s %s %s)", rec(x.Expr), rec(x.LHS), rec(x.RHS))
	case *ast.UnaryExpr:
		return fmt.Sprintf("(U %d %s)", c03OpNum(x.Operator), rec(x.Expr))
	case *ast.AddrExpr:
		return fmt.Sprintf("(U 18 %s)", rec(x.Expr))
	case *ast.DerefExpr:
		return fmt.Sprintf("(U 13 %s)", rec(x.Expr))
	case *ast.CallExpr:
		if n, ok := c03Ident(x.Name); ok {
			return call(fmt.Sprintf("(A %d)", n), x.SubExprs, x.VarArg)
		}
		return "(X callname)"
	case *ast.AnonCallExpr:
		return call(rec(x.Expr), x.SubExprs, x.VarArg)
	case *ast.ItemExpr:
		return fmt.Sprintf("(I %s %s)", rec(x.Item), rec(x.Index))
	case *ast.MemberExpr:
		if n, ok := c03Ident(x.Name); ok {
			return fmt.Sprintf("(M %s %d)", rec(x.Expr), n)
		}
		return "(X member)"
	}
	return fmt.Sprintf("(X %T)", e)
}

// parse a source that should be one expression statement
func c03RealParse(src string, keepParens bool) (string, string) {
	st, err := parser.ParseSrc(src)
	if err != nil {
		return "", "parse error: " + err.Error()
	}
	ss, ok := st.(*ast.StmtsStmt)
	if !ok || len(ss.Stmts) != 1 {
		return "", "not one statement"
	}
	es, ok := ss.Stmts[0].(*ast.ExprStmt)
	if !ok {
		return "", fmt.Sprintf("not an expression statement: %T", ss.Stmts[0])
	}
	return c03FromAst(es.Expr, keepParens), ""
}

// statement positions that accept an expression: returns the expression subtree found there
func c03InPosition(kind int, src string) (string, string) {
	var text string
	var pick func(ast.Stmt) ast.Expr
	first := func(s ast.Stmt) ast.Stmt {
		if ss, ok := s.(*ast.StmtsStmt); ok && len(ss.Stmts) > 0 {
			return ss.Stmts[0]
		}
		return s
	}
	switch kind {
	case 0:
		text = "if " + src + " { }"
		pick = func(s ast.Stmt) ast.Expr { return first(s).(*ast.IfStmt).If }
	case 1:
		text = "for " + src + " { }"
		pick = func(s ast.Stmt) ast.Expr { return first(s).(*ast.LoopStmt).Expr }
	case 2:
		text = "return " + src
		pick = func(s ast.Stmt) ast.Expr { return first(s).(*ast.ReturnStmt).Exprs[0] }
	case 3:
		text = "throw " + src
		pick = func(s ast.Stmt) ast.Expr { return first(s).(*ast.ThrowStmt).Expr }
	case 4:
		text = "x = " + src
		pick = func(s ast.Stmt) ast.Expr { return first(s).(*ast.LetsStmt).RHSS[0] }
	case 5:
		text = "zz(" + src + ")"
		pick = func(s ast.Stmt) ast.Expr { return first(s).(*ast.ExprStmt).Expr.(*ast.CallExpr).SubExprs[0] }
	case 6:
		text = "zz[" + src + "]"
		pick = func(s ast.Stmt) ast.Expr { return first(s).(*ast.ExprStmt).Expr.(*ast.ItemExpr).Index }
	case 7:
		text = "switch 1 { case " + src + ": }"
		pick = func(s ast.Stmt) ast.Expr {
			return first(s).(*ast.SwitchStmt).Cases[0].(*ast.SwitchCaseStmt).Exprs[0]
		}
	case 8:
		text = "[" + src + ", 1]"
		pick = func(s ast.Stmt) ast.Expr { return first(s).(*ast.ExprStmt).Expr.(*ast.ArrayExpr).Exprs[0] }
	case 9:
		text = "var y = " + src
		pick = func(s ast.Stmt) ast.Expr { return first(s).(*ast.VarStmt).Exprs[0] }
	}
	st, err := parser.ParseSrc(text)
	if err != nil {
		return "", "parse error in `" + text + "`: " + err.Error()
	}
	var out string
	var perr string
	func() {
		defer func() {
			if p := recover(); p != nil {
				perr = fmt.Sprintf("unexpected statement shape for `%s`: %v", text, p)
			}
		}()
		out = c03FromAst(pick(st), false)
	}()
	return out, perr
}

const c03Positions = 10

func c03Eval(src string) string {
	e := env.NewEnv()
	e.Define("a", int64(6))
	e.Define("b", int64(3))
	e.Define("c", int64(2))
	e.Define("d", true)
	e.Define("e", []interface{}{int64(1), int64(2), int64(3), int64(6)})
	e.Define("f", func(args ...interface{}) int64 { return int64(len(args)) + 1 })
	var out string
	func() {
		defer func() {
			if p := recover(); p != nil {
				out = "PANIC"
			}
		}()
		v, err := vm.Execute(e, nil, src)
		if err != nil {
			out = "error"
			return
		}
		out = projValue(v, 6)
		if strings.HasPrefix(out, "other:*") { // pointers: compare by pointee type only
			out = "ptr"
		}
	}()
	return out
}

// token list of the real scanner, in the model's alphabet ("" when a token is outside it)
func c03Scan(src string) ([]string, bool) {
	s := new(parser.Scanner)
	s.Init(src)
	var out []string
	for {
		tok, lit, _, err := s.Scan()
		if err != nil {
			return nil, false
		}
		if tok == parser.EOF || tok == -1 {
			break
		}
		switch tok {
		case parser.IDENT:
			n, ok := c03Ident(lit)
			if !ok {
				return nil, false
			}
			out = append(out, fmt.Sprintf("a%d", n))
		case '(':
			out = append(out, "lp")
		case ')':
			out = append(out, "rp")
		case '[':
			out = append(out, "lb")
		case ']':
			out = append(out, "rb")
		case '.':
			out = append(out, "dot")
		case ',':
			out = append(out, "comma")
		case ':':
			out = append(out, "colon")
		default:
			n := c03OpNum(lit)
			if n < 0 {
				return nil, false
			}
			out = append(out, fmt.Sprintf("o%d", n))
		}
	}
	return out, true
}

func c03Mutate(rnd *Rand, toks []string) []string {
	t := append([]string{}, toks...)
	if len(t) == 0 {
		return t
	}
	switch rnd.Intn(6) {
	case 0: // drop
		i := rnd.Intn(len(t))
		t = append(t[:i], t[i+1:]...)
	case 1: // duplicate
		i := rnd.Intn(len(t))
		t = append(t[:i+1], t[i:]...)
	case 2: // swap neighbours
		if len(t) > 1 {
			i := rnd.Intn(len(t) - 1)
			t[i], t[i+1] = t[i+1], t[i]
		}
	case 3: // replace an operator
		for k := 0; k < 8; k++ {
			i := rnd.Intn(len(t))
			if strings.HasPrefix(t[i], "o") {
				t[i] = fmt.Sprintf("o%d", rnd.Intn(22))
				break
			}
		}
	case 4: // parenthesise a random range (may be unbalanced w.r.t. structure: then it should not parse)
		i := rnd.Intn(len(t))
		j := i + rnd.Intn(len(t)-i)
		n := append([]string{}, t[:i]...)
		n = append(n, "lp")
		n = append(n, t[i:j+1]...)
		n = append(n, "rp")
		t = append(n, t[j+1:]...)
	case 5: // insert a random token
		all := []string{"lp", "rp", "lb", "rb", "dot", "comma", "colon", "a0", "o0", "o1", "o11", "o19", "o20"}
		i := rnd.Intn(len(t) + 1)
		n := append([]string{}, t[:i]...)
		n = append(n, all[rnd.Intn(len(all))])
		t = append(n, t[i:]...)
	}
	return t
}

// ---- precedence declarations of parser.go.y ----
func c03GenPrec(repo, outDir string) (map[string]interface{}, error) {
	b, err := os.ReadFile(filepath.Join(repo, "parser", "parser.go.y"))
	if err != nil {
		return nil, err
	}
	text := string(b)
	head := text
	if i := strings.Index(text, "\n%%"); i >= 0 {
		head = text[:i]
	}
	var lines []string
	for _, ln := range strings.Split(head, "\n") {
		f := strings.Fields(ln)
		if len(f) > 0 && (f[0] == "%left" || f[0] == "%right" || f[0] == "%nonassoc") {
			var toks []string
			for _, t := range f[1:] {
				toks = append(toks, coqStr(t))
			}
			kind := "false"
			if f[0] == "%right" {
				kind = "true"
			}
			if f[0] == "%nonassoc" {
				toks = append([]string{coqStr("%nonassoc")}, toks...)
			}
			lines = append(lines, fmt.Sprintf("(%s, [%s])", kind, strings.Join(toks, "; ")))
		}
	}
	// productions of expr_unary: first token and %prec
	var unary []string
	if i := strings.Index(text, "\nexpr_unary :"); i >= 0 {
		body := text[i+1:]
		if j := strings.Index(body, "\n\n"+"expr_binary"); j >= 0 {
			body = body[:j]
		}
		re := regexp.MustCompile(`(?m)^\s*\|?\s*('[^']+')\s+expr\s+%prec\s+(\w+)`)
		for _, m := range re.FindAllStringSubmatch(body, -1) {
			unary = append(unary, fmt.Sprintf("(%s, %s)", coqStr(m[1]), coqStr(m[2])))
		}
	}
	var sb strings.Builder
	sb.WriteString("(* Regenerated on every run by harness/c03.go from " + repo + "/parser/parser.go.y. *)\n")
	sb.WriteString("From Coq Require Import String List.\nImport ListNotations.\nOpen Scope string_scope.\n")
	sb.WriteString("Definition prec_lines : list (bool * list string) := [\n  " + strings.Join(lines, ";\n  ") + "\n].\n")
	sb.WriteString("Definition unary_prec : list (string * string) := [" + strings.Join(unary, "; ") + "].\n")
	if err := os.MkdirAll(filepath.Join(outDir, "AnkoGen"), 0o755); err != nil {
		return nil, err
	}
	if err := os.WriteFile(filepath.Join(outDir, "AnkoGen", "GenPrec.v"), []byte(sb.String()), 0o644); err != nil {
		return nil, err
	}
	return map[string]interface{}{"prec_lines": lines, "unary": unary}, nil
}

func c03Main(seed uint64, n int, outDir, repo, phase, replay string) error {
	rnd := NewRand(seed, "c03")
	trees := c03Directed()
	for len(trees) < n+len(c03Directed()) {
		trees = append(trees, c03Gen(rnd.Fork("t"), 1+rnd.Intn(5)))
	}
	if phase == "gen" || phase == "sem" {
		f, err := os.Create(filepath.Join(outDir, "trees.sx"))
		if err != nil {
			return err
		}
		w := bufio.NewWriter(f)
		for _, t := range trees {
			fmt.Fprintln(w, "c03 "+t.sx())
		}
		w.Flush()
		f.Close()
		prec, err := c03GenPrec(repo, outDir)
		if err != nil {
			return err
		}
		nl := 60
		if n > 10000 {
			nl = 3000
		}
		mb, _ := json.Marshal(map[string]interface{}{"prec": prec, "trees": len(trees), "directed": len(c03Directed()), "literals": c03Literals(rnd.Fork("lit"), nl)})
		return os.WriteFile(filepath.Join(outDir, "meta_gen.json"), mb, 0o644)
	}
	// phase run
	in, err := os.Open(replay)
	if err != nil {
		return err
	}
	defer in.Close()
	sc := bufio.NewScanner(in)
	sc.Buffer(make([]byte, 1<<20), 1<<26)
	res, err := os.Create(filepath.Join(outDir, "results.jsonl"))
	if err != nil {
		return err
	}
	defer res.Close()
	cases2, err := os.Create(filepath.Join(outDir, "cases2.sx"))
	if err != nil {
		return err
	}
	defer cases2.Close()
	enc := json.NewEncoder(res)
	i := 0
	mrnd := rnd.Fork("mut")
	for sc.Scan() {
		line := sc.Text()
		if i >= len(trees) {
			break
		}
		t := trees[i]
		i++
		// "((min...) (full...))"
		depth, split := 0, -1
		for k := 1; k < len(line)-1; k++ {
			if line[k] == '(' {
				depth++
			} else if line[k] == ')' {
				depth--
				if depth == 0 {
					split = k
					break
				}
			}
		}
		if split < 0 {
			enc.Encode(map[string]interface{}{"i": i - 1, "tree": t.sx(), "problem": "driver output not understood: " + line})
			continue
		}
		minT, fullT := c03ParseToks(line[:split+1]), c03ParseToks(line[split+1:])
		want := t.sx()
		rec := map[string]interface{}{"i": i - 1, "tree": want}
		var problems []string
		srcMin := c03Render(minT, false)
		srcFull := c03Render(fullT, false)
		srcCompact := c03Render(minT, true)
		rec["min"], rec["full"] = srcMin, srcFull
		for _, v := range []struct{ name, src string }{{"minimal parentheses", srcMin}, {"all parentheses", srcFull}, {"minimal, compact spacing", srcCompact}} {
			got, perr := c03RealParse(v.src, false)
			if perr != "" {
				problems = append(problems, fmt.Sprintf("%s: `%s`: %s", v.name, v.src, perr))
			} else if got != want {
				problems = append(problems, fmt.Sprintf("%s: `%s` parses to %s", v.name, v.src, got))
			}
		}
		if (i-1)%3 == 0 {
			k := (i - 1) / 3 % c03Positions
			if k == 1 && len(minT) > 1 && strings.HasPrefix(minT[0], "a") && minT[1] == "o19" {
				k = 0 // `for x in ...` is the for-in statement, not a loop over an expression
			}
			got, perr := c03InPosition(k, srcMin)
			if perr != "" {
				problems = append(problems, perr)
			} else if got != want {
				problems = append(problems, fmt.Sprintf("in statement position %d: `%s` parses to %s", k, srcMin, got))
			}
		}
		v1, v2 := c03Eval(srcMin), c03Eval(srcFull)
		rec["value"] = v1
		if v1 != v2 {
			problems = append(problems, fmt.Sprintf("values differ: `%s` = %s, `%s` = %s", srcMin, v1, srcFull, v2))
		}
		if len(problems) > 0 {
			rec["problems"] = problems
		}
		// model parser on what the real scanner sees, and on a mutated token list
		if toks, ok := c03Scan(srcCompact); ok {
			real, perr := c03RealParse(srcCompact, true)
			fmt.Fprintln(cases2, "c03p "+c03TokSx(toks))
			rec["scan_real"], rec["scan_err"] = real, perr
		} else {
			fmt.Fprintln(cases2, "c03p (lp)")
			rec["scan_real"], rec["scan_err"] = "", "scanner left the model's alphabet"
		}
		mt := c03Mutate(mrnd, minT)
		if mrnd.Bool() {
			mt = c03Mutate(mrnd, mt)
		}
		msrc := c03Render(mt, false)
		mreal, mperr := c03RealParse(msrc, true)
		fmt.Fprintln(cases2, "c03p "+c03TokSx(mt))
		rec["mut_src"], rec["mut_real"], rec["mut_err"] = msrc, mreal, mperr
		enc.Encode(rec)
	}
	return nil
}

// ---- literals: value first, then its spelling; the parser must give the value back ----
type c03Lit struct {
	Src  string `json:"src"`
	Want string `json:"want"`
	Got  string `json:"got"`
	Why  string `json:"why"`
}

func c03LitEval(src string) string {
	st, err := parser.ParseSrc(src)
	if err != nil {
		return "reject"
	}
	ss, ok := st.(*ast.StmtsStmt)
	if !ok || len(ss.Stmts) != 1 {
		return "shape"
	}
	es, ok := ss.Stmts[0].(*ast.ExprStmt)
	if !ok {
		return "shape"
	}
	e := es.Expr
	for {
		if p, ok := e.(*ast.ParenExpr); ok {
			e = p.SubExpr
			continue
		}
		break
	}
	neg := false
	if u, ok := e.(*ast.UnaryExpr); ok && u.Operator == "-" {
		neg = true
		e = u.Expr
	}
	l, ok := e.(*ast.LiteralExpr)
	if !ok {
		return fmt.Sprintf("shape %T", e)
	}
	if !l.Literal.IsValid() {
		return "nil"
	}
	v := l.Literal.Interface()
	if neg {
		switch x := v.(type) {
		case int64:
			v = -x
		case float64:
			v = -x
		}
	}
	return projAny(v)
}

func c03Literals(rnd *Rand, n int) []c03Lit {
	var out []c03Lit
	add := func(src, want, why string) { out = append(out, c03Lit{Src: src, Want: want, Got: c03LitEval(src), Why: why}) }
	ints := []int64{0, 1, 2, 7, 8, 9, 10, 15, 16, 255, 256, 1<<31 - 1, 1 << 31, 1<<32 - 1, 1 << 32, 1<<53 - 1, 1 << 53, 1<<53 + 1, 1<<62 + 12345, 1<<63 - 1}
	for i := 0; i < n; i++ {
		ints = append(ints, int64(rnd.Next()>>uint(1+rnd.Intn(62))))
	}
	for _, v := range ints {
		dec, hex, bin := fmt.Sprintf("%d", v), fmt.Sprintf("0x%x", v), fmt.Sprintf("0b%b", v)
		add(dec, projAny(v), "decimal integer")
		add(hex, projAny(v), "hexadecimal integer")
		add(fmt.Sprintf("0X%X", v), projAny(v), "hexadecimal integer, upper case")
		add(bin, projAny(v), "binary integer")
		add("-"+dec, projAny(-v), "negative decimal integer")
		add("-"+hex, projAny(-v), "negative hexadecimal integer")
		add("-"+bin, projAny(-v), "negative binary integer")
		add("- "+dec, projAny(-v), "minus, blank, decimal integer")
		add("0"+dec, projAny(v), "decimal integer with a leading zero")
		add("-00"+dec, projAny(-v), "negative decimal integer with leading zeros")
		add(fmt.Sprintf("0x00%X", v), projAny(v), "hexadecimal integer with leading zeros, upper-case digits")
		add(fmt.Sprintf("0b00%b", v), projAny(v), "binary integer with leading zeros")
		add(dec+".0", projAny(float64(v)), "integer value spelled as a float")
		add(dec+"e0", projAny(float64(v)), "integer value with an exponent is a float")
	}
	add("-9223372036854775808", projAny(int64(-1<<63)), "the smallest int64")
	add("-0x8000000000000000", projAny(int64(-1<<63)), "the smallest int64 in hex")
	for _, s := range []string{"9223372036854775808", "0x8000000000000000", "0b1" + strings.Repeat("0", 63), "18446744073709551616", "-9223372036854775809",
		"1e400", "-1e400", "1.2.3", "1e", "1e+", "0x", "0b", "1ee5", "12abc", "0b12", "0x1g"} {
		add(s, "reject", "not representable / malformed: parse error")
	}
	floats := []float64{0, 1, 0.5, 0.1, 1.5, 3.141592653589793, 1e10, 1e-10, 1e100, 1e-100, 1.7976931348623157e308, 5e-324, 2.2250738585072014e-308, 123456789.125, 1e22, 1e23, 9007199254740993}
	for i := 0; i < n; i++ {
		f := math.Float64frombits(rnd.Next())
		if math.IsNaN(f) || math.IsInf(f, 0) {
			continue
		}
		floats = append(floats, math.Abs(f))
	}
	for _, f := range floats {
		for _, fm := range []byte{'e', 'f', 'g'} {
			s := strconv.FormatFloat(f, fm, -1, 64)
			if !strings.ContainsAny(s, ".e") {
				s += ".0"
			}
			if len(s) > 400 {
				continue
			}
			add(s, projAny(f), "float literal, format "+string(fm))
			add("-"+s, projAny(-f), "negative float literal")
		}
		s := strings.ToUpper(strconv.FormatFloat(f, 'e', -1, 64))
		add(s, projAny(f), "float literal with E")
		add("0"+strconv.FormatFloat(f, 'e', -1, 64), projAny(f), "float literal with a leading zero")
		add(strings.Replace(strconv.FormatFloat(f, 'e', -1, 64), "e+", "e+0", 1), projAny(f), "float literal with a zero-padded exponent")
	}
	// strings: the value first, then a spelling with the language's escapes
	alphabet := []rune{'a', 'b', 'n', 't', 'x', '0', ' ', '"', '\'', '\\', '\n', '\t', '\r', '\b', '\f', 'é', '世', '`', '#', '/', '*'}
	for i := 0; i < 3*n+40; i++ {
		var rs []rune
		ln := rnd.Intn(8)
		for j := 0; j < ln; j++ {
			rs = append(rs, alphabet[rnd.Intn(len(alphabet))])
		}
		val := string(rs)
		for _, q := range []rune{'"', '\''} {
			var sb strings.Builder
			sb.WriteRune(q)
			for _, r := range rs {
				switch r {
				case '\n':
					sb.WriteString(`\n`)
				case '\t':
					if rnd.Bool() {
						sb.WriteString(`\t`)
					} else {
						sb.WriteRune(r)
					}
				case '\r':
					sb.WriteString(`\r`)
				case '\b':
					sb.WriteString(`\b`)
				case '\f':
					sb.WriteString(`\f`)
				case '\\':
					sb.WriteString(`\\`)
				case q:
					sb.WriteRune('\\')
					sb.WriteRune(q)
				default:
					sb.WriteRune(r)
				}
			}
			sb.WriteRune(q)
			add(sb.String(), projAny(val), "quoted string with escapes")
		}
		if !strings.ContainsRune(val, '`') && !strings.ContainsRune(val, '\r') {
			add("`"+val+"`", projAny(val), "raw string: verbatim")
		}
	}
	add(`"abc`, "reject", "unterminated string")
	add("\"ab\nc\"", "reject", "newline inside a quoted string")
	add("`abc", "reject", "unterminated raw string")
	add("true", projAny(true), "true")
	add("false", projAny(false), "false")
	add("nil", "nil", "nil")
	return out
}
