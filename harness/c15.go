package main

// C15: parsing is total, position-accurate and compositional.
// The parent generates inputs; a child process (restartable: a hang or crash is attributed to the
// input it was on) runs the real scanner and parser on each and records what happened; the parent
// writes the inputs that lie in the scanner model's alphabet for the extracted model.

import (
	"encoding/base64"
	"encoding/json"
	"fmt"
	"os"
	"os/exec"
	"path/filepath"
	"reflect"
	"regexp"
	"sort"
	"strconv"
	"strings"
	"sync"
	"time"
	"unicode/utf8"

	anko "github.com/mattn/anko/ast"
	"github.com/mattn/anko/parser"
)

var c15TokNames = map[int]string{
	parser.IDENT: "IDENT", parser.NUMBER: "NUMBER", parser.STRING: "STRING", parser.ARRAY: "ARRAY", parser.VARARG: "VARARG",
	parser.FUNC: "FUNC", parser.RETURN: "RETURN", parser.VAR: "VAR", parser.THROW: "THROW", parser.IF: "IF", parser.ELSE: "ELSE",
	parser.FOR: "FOR", parser.IN: "IN", parser.EQEQ: "EQEQ", parser.NEQ: "NEQ", parser.GE: "GE", parser.LE: "LE", parser.OROR: "OROR",
	parser.ANDAND: "ANDAND", parser.NEW: "NEW", parser.TRUE: "TRUE", parser.FALSE: "FALSE", parser.NIL: "NIL",
	parser.NILCOALESCE: "NILCOALESCE", parser.MODULE: "MODULE", parser.TRY: "TRY", parser.CATCH: "CATCH", parser.FINALLY: "FINALLY",
	parser.PLUSEQ: "PLUSEQ", parser.MINUSEQ: "MINUSEQ", parser.MULEQ: "MULEQ", parser.DIVEQ: "DIVEQ", parser.ANDEQ: "ANDEQ",
	parser.OREQ: "OREQ", parser.BREAK: "BREAK", parser.CONTINUE: "CONTINUE", parser.PLUSPLUS: "PLUSPLUS", parser.MINUSMINUS: "MINUSMINUS",
	parser.SHIFTLEFT: "SHIFTLEFT", parser.SHIFTRIGHT: "SHIFTRIGHT", parser.SWITCH: "SWITCH", parser.CASE: "CASE", parser.DEFAULT: "DEFAULT",
	parser.GO: "GO", parser.DEFER: "DEFER", parser.CHAN: "CHAN", parser.STRUCT: "STRUCT", parser.MAKE: "MAKE", parser.OPCHAN: "OPCHAN",
	parser.EQOPCHAN: "EQOPCHAN", parser.TYPE: "TYPE", parser.LEN: "LEN", parser.DELETE: "DELETE", parser.CLOSE: "CLOSE", parser.MAP: "MAP",
	parser.IMPORT: "IMPORT",
}

type c15Case struct {
	Kind string `json:"kind"` // class of the input
	A    string `json:"a"`    // base64 of the input bytes
	B    string `json:"b,omitempty"`
	// Census: how many constructs of each kind the generator wrote into a valid program (see c15CensusMap)
	Census map[string]int `json:"census,omitempty"`
}

// c15CensusMap: constructs the grammar-directed generator counts as it writes them, and the node type the parser
// must have built for each - the tree holds exactly as many, so nothing the text says is lost and nothing is invented
var c15CensusMap = map[string]string{
	"Switch": "SwitchStmt", "Try": "TryStmt", "Throw": "ThrowStmt", "Return": "ReturnStmt", "Break": "BreakStmt", "Continue": "ContinueStmt",
	"CFor": "CForStmt", "Module": "ModuleStmt", "Var": "VarStmt", "Go": "GoroutineStmt", "Defer": "DeferStmt",
	"Delete": "DeleteStmt", "Close": "CloseStmt", "Ternary": "TernaryOpExpr", "NilCoalesce": "NilCoalescingOpExpr", "Len": "LenExpr", "Import": "ImportExpr",
	"MakeType": "MakeTypeExpr", "Slice": "SliceExpr",
}

func c15CountNodes(n interface{}, counts map[string]int) {
	if n == nil {
		return
	}
	rv := reflect.ValueOf(n)
	if rv.Kind() == reflect.Ptr {
		if rv.IsNil() {
			return
		}
		counts[rv.Type().Elem().Name()]++
	}
	_, groups := astChildren(n)
	for _, g := range groups {
		for _, ch := range g {
			c15CountNodes(ch, counts)
		}
	}
}

type c15Res struct {
	I        int      `json:"i"`
	Tokens   string   `json:"tokens"`   // S-expression of the real token stream ("" when not collected)
	ScanStop string   `json:"scanstop"` // "" | "no-progress"
	Outcome  string   `json:"outcome"`  // ok | error | PANIC ...
	ErrType  string   `json:"errtype"`
	Line     int      `json:"line"`
	Col      int      `json:"col"`
	Msg      string   `json:"msg"`
	Tree     bool     `json:"tree"`
	PosOK    bool     `json:"pos_ok"`   // error position inside the input (in runes, as the scanner counts)
	LineLen  int      `json:"line_len"` // length of the reported line in runes (-1: no such line)
	NLines   int      `json:"nlines"`
	Problems []string `json:"problems,omitempty"`
}

// position-accuracy of one token, on the implementation alone: the reported line/column must be the
// coordinates of the offset at which the token's text stands in the source
func c15TokenAt(rs []rune, lineStart []int, tok int, lit string, line, col int) string {
	if line < 1 || line > len(lineStart) {
		return fmt.Sprintf("line %d is not a line of the input (%d lines)", line, len(lineStart))
	}
	end := len(rs)
	if line < len(lineStart) {
		end = lineStart[line] - 1
	}
	idx := lineStart[line-1] + col - 1
	if col < 1 || idx > end {
		return fmt.Sprintf("column %d is beyond one past the end of line %d (length %d)", col, line, end-lineStart[line-1])
	}
	switch {
	case tok == parser.EOF:
		if idx != len(rs) {
			return fmt.Sprintf("EOF reported at %d:%d, which is not the end of the input", line, col)
		}
	case tok == parser.STRING:
		if idx >= len(rs) || (rs[idx] != '"' && rs[idx] != '\'' && rs[idx] != '`') {
			return fmt.Sprintf("no quote at %d:%d where a string token is reported", line, col)
		}
	case tok == parser.EQOPCHAN || tok == parser.VARARG || tok == 0:
	case lit != "":
		lr := []rune(lit)
		if idx+len(lr) > len(rs) || !strings.EqualFold(string(rs[idx:idx+len(lr)]), lit) {
			return fmt.Sprintf("the text at %d:%d is not the token %q reported there", line, col, lit)
		}
	}
	return ""
}

func c15RealTokens(src string) (string, string) {
	t, stop, _ := c15RealTokensP(src)
	return t, stop
}

func c15RealTokensP(src string) (string, string, []string) {
	s := new(parser.Scanner)
	s.Init(src)
	rs := []rune(src)
	lineStart := []int{0}
	for i, r := range rs {
		if r == '\n' {
			lineStart = append(lineStart, i+1)
		}
	}
	var problems []string
	var toks []string
	limit := utf8.RuneCountInString(src) + 3
	for n := 0; ; n++ {
		if n > limit {
			return "(" + strings.Join(toks, " ") + ")", "no-progress", problems
		}
		tok, lit, pos, err := s.Scan()
		if err == nil && len(problems) < 3 {
			if p := c15TokenAt(rs, lineStart, tok, lit, pos.Line, pos.Column); p != "" {
				problems = append(problems, "token position: "+p)
			}
		}
		kind := ""
		switch {
		case tok == parser.EOF:
			kind = "EOF"
		case c15TokNames[tok] != "":
			kind = c15TokNames[tok]
		default:
			kind = fmt.Sprintf("(c %d)", tok)
		}
		var rs []string
		for _, r := range lit {
			rs = append(rs, strconv.Itoa(int(r)))
		}
		toks = append(toks, fmt.Sprintf("(%s (%s) %d %d %v)", kind, strings.Join(rs, " "), pos.Line, pos.Column, err != nil))
		if tok == parser.EOF {
			break
		}
	}
	return "(" + strings.Join(toks, " ") + ")", "", problems
}

func c15StmtDumps(st anko.Stmt) []string {
	if st == nil {
		return nil
	}
	ss, ok := st.(*anko.StmtsStmt)
	if !ok {
		var b strings.Builder
		fullDump(st, &b, 0)
		return []string{b.String()}
	}
	var out []string
	for _, s := range ss.Stmts {
		var b strings.Builder
		fullDump(s, &b, 0)
		out = append(out, b.String())
	}
	return out
}

var c15PosRe = regexp.MustCompile(`@(\d+):(\d+)\(`)

func c15Shift(d string, dl int) string {
	return c15PosRe.ReplaceAllStringFunc(d, func(m string) string {
		sm := c15PosRe.FindStringSubmatch(m)
		l, _ := strconv.Atoi(sm[1])
		if l == 0 { // a node whose position was never set
			return m
		}
		return fmt.Sprintf("@%d:%s(", l+dl, sm[2])
	})
}

func c15One(i int, c c15Case) c15Res {
	ab, _ := base64.StdEncoding.DecodeString(c.A)
	src := string(ab)
	r := c15Res{I: i}
	if c.Kind == "pair" {
		bb, _ := base64.StdEncoding.DecodeString(c.B)
		s2 := string(bb)
		t1, e1 := parser.ParseSrc(src)
		t2, e2 := parser.ParseSrc(s2)
		if e1 != nil || e2 != nil {
			r.Outcome = "pair-invalid"
			return r
		}
		t12, e12 := parser.ParseSrc(src + "\n" + s2)
		r.Outcome = "ok"
		if e12 != nil {
			r.Problems = append(r.Problems, "the concatenation of two valid programs does not parse: "+e12.Error())
			return r
		}
		dl := strings.Count(src, "\n") + 1
		want := c15StmtDumps(t1)
		for _, d := range c15StmtDumps(t2) {
			want = append(want, c15Shift(d, dl))
		}
		got := c15StmtDumps(t12)
		if len(got) != len(want) {
			r.Problems = append(r.Problems, fmt.Sprintf("concatenation has %d statements, the parts %d", len(got), len(want)))
			return r
		}
		for k := range got {
			if got[k] != want[k] {
				r.Problems = append(r.Problems, fmt.Sprintf("statement %d of the concatenation differs from the part (positions shifted by %d lines): %s", k, dl, firstDiff(want[k], got[k])))
				break
			}
		}
		return r
	}
	if c.Kind != "deep" {
		var tp []string
		r.Tokens, r.ScanStop, tp = c15RealTokensP(src)
		if utf8.ValidString(src) {
			r.Problems = append(r.Problems, tp...)
		}
	}
	func() {
		defer func() {
			if p := recover(); p != nil {
				r.Outcome = "PANIC " + fmt.Sprint(p)
			}
		}()
		t, err := parser.ParseSrc(src)
		r.Tree = t != nil
		if err == nil {
			r.Outcome = "ok"
			if c.Census != nil {
				counts := map[string]int{}
				c15CountNodes(t, counts)
				var kinds []string
				for k := range c15CensusMap {
					kinds = append(kinds, k)
				}
				sort.Strings(kinds)
				if l := counts["LoopStmt"] + counts["ForStmt"]; l != c.Census["Loop"]+c.Census["ForIn"] {
					r.Problems = append(r.Problems, fmt.Sprintf("the text was written with %d loop / for-in construct(s), the tree holds %d LoopStmt / ForStmt node(s)", c.Census["Loop"]+c.Census["ForIn"], l))
				}
				for _, k := range kinds {
					if counts[c15CensusMap[k]] != c.Census[k] {
						r.Problems = append(r.Problems, fmt.Sprintf("the text was written with %d %s construct(s), the tree holds %d %s node(s)", c.Census[k], k, counts[c15CensusMap[k]], c15CensusMap[k]))
					}
				}
			}
			return
		}
		r.Outcome = "error"
		r.ErrType = fmt.Sprintf("%T", err)
		if pe, ok := err.(*parser.Error); ok {
			if pe == nil {
				r.ErrType = "*parser.Error(nil)"
				return
			}
			r.Line, r.Col, r.Msg = pe.Pos.Line, pe.Pos.Column, pe.Message
			var lens []int
			cur := 0
			for _, ru := range []rune(src) {
				if ru == '\n' {
					lens = append(lens, cur)
					cur = 0
				} else {
					cur++
				}
			}
			lens = append(lens, cur)
			r.NLines, r.LineLen = len(lens), -1
			if r.Line >= 1 && r.Line <= len(lens) {
				r.LineLen = lens[r.Line-1]
				r.PosOK = r.Col >= 1 && r.Col <= r.LineLen+1
			}
		}
	}()
	if c.Kind == "valid" || c.Kind == "mutated" {
		// same text, same tree: 12 concurrent callers
		var wg sync.WaitGroup
		dumps := make([]string, 12)
		for g := range dumps {
			wg.Add(1)
			go func(g int) {
				defer wg.Done()
				defer func() { recover() }()
				t, err := parser.ParseSrc(src)
				dumps[g] = strings.Join(c15StmtDumps(t), ";") + fmt.Sprint(err != nil)
			}(g)
		}
		wg.Wait()
		for g := 1; g < len(dumps); g++ {
			if dumps[g] != dumps[0] {
				r.Problems = append(r.Problems, "concurrent parses of the same text differ: "+firstDiff(dumps[0], dumps[g]))
				break
			}
		}
	}
	return r
}

func c15Child(casesFile, outFile string, start int) error {
	b, err := os.ReadFile(casesFile)
	if err != nil {
		return err
	}
	var cases []c15Case
	if err := json.Unmarshal(b, &cases); err != nil {
		return err
	}
	f, err := os.OpenFile(outFile, os.O_APPEND|os.O_CREATE|os.O_WRONLY, 0o644)
	if err != nil {
		return err
	}
	defer f.Close()
	for i := start; i < len(cases); i++ {
		done := make(chan c15Res, 1)
		go func() { done <- c15One(i, cases[i]) }()
		select {
		case r := <-done:
			jb, _ := json.Marshal(r)
			fmt.Fprintln(f, string(jb))
		case <-time.After(5 * time.Second):
			jb, _ := json.Marshal(c15Res{I: i, Outcome: "TIMEOUT"})
			fmt.Fprintln(f, string(jb))
			f.Close()
			os.Exit(3)
		}
	}
	return nil
}

// ---- generation ----
var c15Pieces = []string{"a", "b", "x1", "_y", "é", "世", "if", "for", "func", "in", "return", "1", "0", "12", "0x1f", "0b101", "1.5", "1e3", "1e+", "1e", ".5",
	"\"", "'", "`", "\\", "\\n", "\\\"", "\n", "\n", " ", "\t", "\r\n", "#", "//", "/*", "*/", "*", "/", "=", "==", "= <-", "<-", "<", "<=", "<<", ">", ">=", ">>",
	"!", "!=", "?", "??", ":", ";", "+", "++", "+=", "-", "--", "-=", "|", "||", "|=", "&", "&&", "&=", "%", "^", ".", "..", "...", ",", "(", ")", "[", "]", "{", "}",
	"@", "$", "~", "\x00", "λ", "ж", "あ"}

func c15Soup(rnd *Rand) string {
	n := 1 + rnd.Intn(14)
	var sb strings.Builder
	for i := 0; i < n; i++ {
		sb.WriteString(c15Pieces[rnd.Intn(len(c15Pieces))])
		if rnd.Chance(1, 4) {
			sb.WriteByte(' ')
		}
	}
	return sb.String()
}

func c15MutateSrc(rnd *Rand, s string) string {
	rs := []rune(s)
	if len(rs) == 0 {
		return c15Soup(rnd)
	}
	switch rnd.Intn(5) {
	case 0: // truncate
		return string(rs[:rnd.Intn(len(rs))])
	case 1: // delete a span
		i := rnd.Intn(len(rs))
		j := i + rnd.Intn(len(rs)-i)
		return string(rs[:i]) + string(rs[j:])
	case 2: // insert a piece
		i := rnd.Intn(len(rs) + 1)
		return string(rs[:i]) + c15Pieces[rnd.Intn(len(c15Pieces))] + string(rs[i:])
	case 3: // duplicate a span
		i := rnd.Intn(len(rs))
		j := i + rnd.Intn(len(rs)-i)
		return string(rs[:j]) + string(rs[i:j]) + string(rs[j:])
	}
	i := rnd.Intn(len(rs))
	rs[i] = []rune(c15Pieces[rnd.Intn(len(c15Pieces))])[0]
	return string(rs)
}

func c15Directed() []string {
	return []string{"", " ", "\n", "\n\n", "a", "/*", "/**", "/*/", "/**/", "/***/", "/* a */ b", "/* a\n b */ c", "/* * / */x", "x /* unterminated", "#", "# c", "# c\nx", "//", "// c\nx",
		"\"abc", "\"abc\n\"", "\"a\\", "\"a\\\nb\"", "'a'", "'a\"b'", "`raw\nstring`", "`unterminated", "\"\\b\\f\\r\\n\\t\\q\\\\\"", "x = <- c", "x =  <- c", "x =<- c", "x = < - c",
		"..", "...", "a..b", "f(a...)", "1e", "1e+", "1e5", "1E5", "1e+5x", "1ee5", "0x", "0xg", "0X1F", "0b", "0b2", "0B101", "1.2.3", "1a", "1_", "_1", "1.", ".1", "1..2",
		"a\r\nb", "a\tb", "a\x00b", "\xef\xbb\xbfa", "a @ b", "a $ b", "é = 1", "世界 = \"世界\"", "x = 1 ;; y = 2", "x = 1;\n\n\ny = (", "if a {\n  b(\n}", "func(", "}", "a ? b", "a ? b : ",
		"[1, 2", "{\"a\": 1", "x[1:", "a.", "a.1", "a..", "!", "- - - 1", "a = = b", "a === b", "a ++ ++", "x = 08", "x = 1 y = 2", "switch a { case 1: b; default: c }", "try { a } catch e { b } finally { c }",
		"for i = 0; i < 3; i++ { }", "for a, b in c { }", "a <- b", "<- a", "a, ok = <- b", "var a, b = 1, 2", "module m { x = 1 }", "make(chan int64, 1)", "make(type T, 1)", "new(int64)",
		"map[string]int64{\"a\": 1}", "[]int64{1, 2}", "[][]string{}", "a?.b", "a ?? b ?? c", "go f()", "defer f()", "delete(a, b)", "close(c)", "len(a)", "import(\"x\")",
		"x = \"a\nb\"", "\"\\", "'", "`", "\\", "a\\b", "/", "/=", "a /= 2", "a / = 2", "a //= 2\nb", "1 /* c */ + /* d */ 2", "/* a */ /* b */", "a # b\n# c\nd", "\n\n\n   \t  x",
	}
}

func c15Deep(k int, form int) string {
	switch form {
	case 0:
		return strings.Repeat("(", k) + "1" + strings.Repeat(")", k)
	case 1:
		return strings.Repeat("[", k) + "1" + strings.Repeat("]", k)
	case 2:
		return strings.Repeat("if a {\n", k) + "b" + strings.Repeat("\n}", k)
	case 3:
		return strings.Repeat("-", 1) + strings.Repeat(" -", k) + " 1"
	case 4:
		return "a" + strings.Repeat(".b", k)
	case 5:
		return "1" + strings.Repeat(" + 1", k)
	case 6:
		return strings.Repeat("func() { return ", k) + "1" + strings.Repeat(" }", k)
	case 7:
		return strings.Repeat("(", k) // unbalanced
	case 8:
		return strings.Repeat("{", k)
	case 9:
		return "x = " + strings.Repeat("a ? ", k) + "1" + strings.Repeat(" : 2", k)
	case 10:
		return strings.Repeat("a[", k) + "0" + strings.Repeat("]", k)
	}
	return "f" + strings.Repeat("(", k) + strings.Repeat(")", k)
}

func c15Main(seed uint64, n int, outDir, repo string) error {
	rnd := NewRand(seed, "c15")
	var cases []c15Case
	enc := func(s string) string { return base64.StdEncoding.EncodeToString([]byte(s)) }
	for _, s := range c15Directed() {
		cases = append(cases, c15Case{Kind: "directed", A: enc(s)})
	}
	var valid []string
	gen := newSrcGen(rnd.Fork("src"))
	for i := 0; i < n; i++ {
		switch rnd.Pick([]int{30, 30, 25, 10, 5}) {
		case 0:
			before := map[string]int{}
			for k, v := range gen.kinds {
				before[k] = v
			}
			p := gen.program(1 + rnd.Intn(3))
			census := map[string]int{}
			for k := range c15CensusMap {
				census[k] = gen.kinds[k] - before[k]
			}
			census["Loop"], census["ForIn"] = gen.kinds["Loop"]-before["Loop"], gen.kinds["ForIn"]-before["ForIn"]
			if rnd.Chance(1, 5) { // empty statements in front change nothing
				p = []string{";", ";;", "\n;\n", "; ;\n"}[rnd.Intn(4)] + p
			}
			valid = append(valid, p)
			cases = append(cases, c15Case{Kind: "valid", A: enc(p), Census: census})
		case 1:
			p := c15MutateSrc(rnd, gen.program(1+rnd.Intn(3)))
			if rnd.Bool() {
				p = c15MutateSrc(rnd, p)
			}
			cases = append(cases, c15Case{Kind: "mutated", A: enc(p)})
		case 2:
			cases = append(cases, c15Case{Kind: "soup", A: enc(c15Soup(rnd))})
		case 3:
			b := make([]byte, 1+rnd.Intn(24))
			for j := range b {
				b[j] = byte(rnd.Intn(256))
			}
			cases = append(cases, c15Case{Kind: "bytes", A: enc(string(b))})
		case 4:
			k := []int{10, 100, 1000, 5000}[rnd.Intn(4)]
			cases = append(cases, c15Case{Kind: "deep", A: enc(c15Deep(k, rnd.Intn(12)))})
		}
	}
	// pairs of valid programs for the concatenation law
	for i := 0; i+1 < len(valid) && i < n/2; i++ {
		a, b := valid[rnd.Intn(len(valid))], valid[rnd.Intn(len(valid))]
		if rnd.Chance(1, 6) { // a first text without statements: blanks, newlines, comments
			a = []string{"", "\n", "\n\n\n", "  ", "\t\n ", "# c", "// c\n", "/* c\n d */", " \n# x\n"}[rnd.Intn(9)]
		}
		if rnd.Chance(1, 4) {
			a += "\n"
		}
		if rnd.Chance(1, 6) {
			a += " # trailing comment"
		}
		cases = append(cases, c15Case{Kind: "pair", A: enc(a), B: enc(b)})
	}
	for _, pr := range [][2]string{{"a = 1", "b = 2"}, {"", "x"}, {"x", ""}, {"if a { b }", "else_ = 1"}, {"f(1)", "(2)"}, {"a", "[1]"}, {"a", "-b"}, {"a =", "1"},
		{"func f() { return 1 }", "f()"}, {"x = 1 // c", "y"}, {"x = 1 /* c */", "y"}, {"a\n\n", "b"}, {"switch a { case 1: b }", "c"}, {"a = {\"k\": 1}", "{\"j\": 2}"},
		{"return", "1"}, {"a++", "b"}, {"a", "++b"}, {"x = [1,\n2]", "y = [3,\n4]"},
		// a first text that ends inside something unterminated: if it is accepted at all, it must not swallow the second
		{"a = 1 /* note", "b = 2"}, {"/*", "b"}, {"a /*/", "b"}, {"a = 1 /* x *", "b = 2"}, {"a = \"open", "b = 2"}, {"a = `raw", "b = 2"}, {"a = 'c", "b = 2"}, {"a = 1 #", "b = 2"},
		{"a = 1 //", "b = 2"}, {"a = 1 /* c */ /*", "b = 2"}, {"a = \"s\\", "b = 2"}, {"a = 1 /", "*b"},
		// a second text that starts with something only a file start would excuse: if it is accepted alone, it is accepted after a newline
		{"y = 2", "\uFEFFx = 1"}, {"", "\uFEFFx = 1"}, {"\uFEFFy = 2", "\uFEFFx = 1"}, {"\uFEFFy = 2", "x = 1"}, {"y = 2", "\uFEFF"}, {"y = 2", "#!/usr/bin/env anko\nx = 1"},
		{"y = 2", "\ufffex = 1"}, {"y = 2", "\u200bx = 1"}, {"y = 2", "\x00x = 1"}, {"y = 2", "\r\nx = 1"}, {"y = 2", "\u2028x = 1"}} {
		cases = append(cases, c15Case{Kind: "pair", A: enc(pr[0]), B: enc(pr[1])})
	}
	cb, _ := json.Marshal(cases)
	casesFile := filepath.Join(outDir, "cases.json")
	resFile := filepath.Join(outDir, "results.jsonl")
	os.Remove(resFile)
	if err := os.WriteFile(casesFile, cb, 0o644); err != nil {
		return err
	}
	self, _ := os.Executable()
	results := make([]*c15Res, len(cases))
	for start := 0; start < len(cases); {
		cmd := exec.Command(self, "c15child", "-replay", casesFile, "-out", resFile, "-n", fmt.Sprint(start))
		out, _ := cmd.CombinedOutput()
		rb, _ := os.ReadFile(resFile)
		got := start
		for _, l := range strings.Split(string(rb), "\n") {
			if l == "" {
				continue
			}
			var r c15Res
			if json.Unmarshal([]byte(l), &r) == nil && r.I < len(cases) {
				rr := r
				results[r.I] = &rr
				if r.I+1 > got {
					got = r.I + 1
				}
			}
		}
		if got <= start {
			results[start] = &c15Res{I: start, Outcome: "CRASH " + clip(string(out))}
			got = start + 1
		}
		start = got
	}
	// inputs for the scanner model: valid UTF-8, runes the model's letter table knows
	sx, err := os.Create(filepath.Join(outDir, "cases.sx"))
	if err != nil {
		return err
	}
	defer sx.Close()
	modelled := map[rune]bool{233: true, 19990: true, 955: true, 1078: true, 12354: true}
	var modelIdx []int
	for i, c := range cases {
		if c.Kind == "pair" || c.Kind == "deep" {
			continue
		}
		ab, _ := base64.StdEncoding.DecodeString(c.A)
		if !utf8.Valid(ab) {
			continue
		}
		ok := true
		var rs []string
		for _, r := range string(ab) {
			if r > 127 && !modelled[r] {
				ok = false
				break
			}
			rs = append(rs, strconv.Itoa(int(r)))
		}
		if !ok {
			continue
		}
		fmt.Fprintln(sx, "c15 ("+strings.Join(rs, " ")+")")
		modelIdx = append(modelIdx, i)
	}
	mb, _ := json.Marshal(map[string]interface{}{"cases": cases, "results": results, "model_index": modelIdx})
	return os.WriteFile(filepath.Join(outDir, "meta.json"), mb, 0o644)
}
