package main

// Values of the script universe of coq/Core/Builtins.v, rendered both as anko source and as the
// S-expression the extracted model (entry c19b) reads, with the strconv.ParseFloat oracle entries for
// every string inside them.

import (
	"fmt"
	"math"
	"sort"
	"strconv"
	"strings"
)

type cval struct {
	src string      // anko literal
	sx  string      // model encoding
	val interface{} // the Go value the literal denotes
	strs []string   // strings occurring in it
}

func c19bInt(x int64) cval {
	src := fmt.Sprint(x)
	if x == math.MinInt64 {
		src = "(-9223372036854775807 - 1)"
	}
	return cval{src: src, sx: fmt.Sprintf("(i %d)", x), val: x}
}

func c19bFloat(src string) cval {
	f, err := strconv.ParseFloat(src, 64)
	if err != nil {
		panic("c19b float literal " + src)
	}
	return cval{src: src, sx: fmt.Sprintf("(f %d)", math.Float64bits(f)), val: f}
}

func c19bStr(s string) cval {
	return cval{src: strconv.Quote(s), sx: "(s " + sxStr(s) + ")", val: s, strs: []string{s}}
}

var c19bInts = []int64{0, 1, -1, 7, -3, 42, 255, 256, 65, 1 << 31, 1 << 53, 1<<53 + 1, math.MaxInt64, math.MaxInt64 - 1, math.MinInt64, math.MinInt64 + 1, 1 << 62, -(1 << 62), 1234567890123456789}
var c19bFloats = []string{"0.0", "1.5", "-2.75", "0.1", "2.5e-7", "1e300", "-1e300", "1e18", "9.3e18", "-9.3e18", "9223372036854775807.0", "123456789.125", "0.999999", "-0.5", "4503599627370496.5", "1e19", "3.0"}
var c19bStrs = []string{"", "12", "-7", "+5", "007", "1.5", "1e3", "abc", " 5", "5 ", "0x10", "0b11", "true", "9223372036854775807", "9223372036854775808", "-9223372036854775808",
	"-9223372036854775809", "9007199254740993", "1e18", "1e19", "-0", "0.1e1", "12abc", "1 2", "1_000", "inf", "-Inf", "NaN", "nan", ".5", "5.", "-", "+", "--1", "+-1", "1e", "0x1p4", "1e400", "-1e400", "٣", "é", "a\tb", "00", "-00012"}

func c19bScalar(r *Rand) cval {
	switch r.Intn(10) {
	case 0:
		return cval{src: "nil", sx: "(nil)", val: nil}
	case 1:
		if r.Bool() {
			return cval{src: "true", sx: "(b true)", val: true}
		}
		return cval{src: "false", sx: "(b false)", val: false}
	case 2, 3:
		if r.Chance(1, 3) {
			return c19bInt(int64(r.Next()))
		}
		return c19bInt(c19bInts[r.Intn(len(c19bInts))])
	case 4, 5:
		if r.Chance(1, 3) {
			return c19bFloat(fmt.Sprintf("%d.%d", r.Intn(100000), r.Intn(1000)))
		}
		return c19bFloat(c19bFloats[r.Intn(len(c19bFloats))])
	default:
		switch r.Intn(4) {
		case 0: // the spelling of a random int64: the round trip the theorem is about
			return c19bStr(fmt.Sprint(int64(r.Next())))
		case 1: // a numeral near the int64 limits, possibly beyond
			d := []string{"9223372036854775", "-9223372036854775", "922337203685477580", "1844674407370955161"}[r.Intn(4)]
			return c19bStr(d + fmt.Sprint(r.Intn(1000)))
		case 2: // decorated numerals
			pre := []string{"", "+", "-", " ", "0", "00", "0x", "+0"}[r.Intn(8)]
			suf := []string{"", "", ".0", ".5", "e2", "e-2", " ", "x", "_0"}[r.Intn(9)]
			return c19bStr(pre + fmt.Sprint(r.Intn(100000)) + suf)
		}
		return c19bStr(c19bStrs[r.Intn(len(c19bStrs))])
	}
}

func c19bList(r *Rand, depth int) cval {
	n := r.Intn(6)
	out := cval{val: []interface{}{}}
	var srcs, sxs []string
	vals := []interface{}{}
	for i := 0; i < n; i++ {
		var e cval
		if depth > 0 && r.Chance(1, 6) {
			e = c19bList(r, depth-1)
		} else {
			e = c19bScalar(r)
		}
		srcs = append(srcs, e.src)
		sxs = append(sxs, e.sx)
		vals = append(vals, e.val)
		out.strs = append(out.strs, e.strs...)
	}
	out.src = "[" + strings.Join(srcs, ", ") + "]"
	out.sx = "(l" + prefixEach(sxs) + ")"
	out.val = vals
	return out
}

func prefixEach(xs []string) string {
	var b strings.Builder
	for _, x := range xs {
		b.WriteString(" " + x)
	}
	return b.String()
}

func c19bMap(r *Rand) cval {
	n := r.Intn(6)
	out := cval{}
	seen := map[interface{}]bool{}
	m := map[interface{}]interface{}{}
	var srcs, sxs []string
	for i := 0; i < n; i++ {
		k := c19bScalar(r)
		if k.val == nil {
			continue
		}
		if f, ok := k.val.(float64); ok && f != f {
			continue
		}
		if seen[k.val] {
			continue
		}
		seen[k.val] = true
		v := c19bScalar(r)
		m[k.val] = v.val
		srcs = append(srcs, k.src+": "+v.src)
		sxs = append(sxs, "("+k.sx+" "+v.sx+")")
		out.strs = append(out.strs, k.strs...)
		out.strs = append(out.strs, v.strs...)
	}
	out.src = "{" + strings.Join(srcs, ", ") + "}"
	out.sx = "(m" + prefixEach(sxs) + ")"
	out.val = m
	return out
}

func c19bValue(r *Rand) cval {
	switch r.Intn(8) {
	case 0:
		return c19bList(r, 1)
	case 1:
		return c19bMap(r)
	}
	return c19bScalar(r)
}

func c19bOracle(strs []string) string {
	var b strings.Builder
	b.WriteString("(")
	seen := map[string]bool{}
	for _, s := range strs {
		if seen[s] {
			continue
		}
		seen[s] = true
		if f, err := strconv.ParseFloat(s, 64); err == nil {
			fmt.Fprintf(&b, "(%s (%d))", sxStr(s), math.Float64bits(f))
		} else {
			fmt.Fprintf(&b, "(%s ())", sxStr(s))
		}
	}
	b.WriteString(")")
	return b.String()
}

// projKeys projects the result of keys(...) with the elements sorted: Go map order is not specified.
func projSorted(x interface{}) string {
	l, ok := x.([]interface{})
	if !ok {
		return projAny(x)
	}
	var p []string
	for _, e := range l {
		p = append(p, projAny(e))
	}
	sort.Strings(p)
	return "[]interface {}[" + strings.Join(p, ",") + "]"
}

// c19bCases: every scalar of the fixed pools under toInt/toFloat/len/typeOf/kindOf, then n random
// values under a random builtin.  Want is empty: these cases are judged against the model.
func c19bCases(n int, r *Rand) []c19Case {
	var cases []c19Case
	add := func(op string, v cval) {
		cases = append(cases, c19Case{Src: op + "(" + v.src + ")", Why: "model " + op, Model: "(" + op + " " + v.sx + " " + c19bOracle(v.strs) + ")", Sorted: op == "keys"})
	}
	var pool []cval
	for _, x := range c19bInts {
		pool = append(pool, c19bInt(x))
	}
	for _, x := range c19bFloats {
		pool = append(pool, c19bFloat(x))
	}
	for _, x := range c19bStrs {
		pool = append(pool, c19bStr(x))
	}
	for _, v := range pool {
		for _, op := range []string{"toInt", "toFloat", "len", "typeOf", "kindOf", "keys"} {
			add(op, v)
		}
	}
	ops := []string{"toInt", "toInt", "toFloat", "toFloat", "toIntSlice", "toFloatSlice", "toBoolSlice", "len", "keys", "typeOf", "kindOf"}
	for i := 0; i < n; i++ {
		op := ops[r.Intn(len(ops))]
		var v cval
		switch op {
		case "toIntSlice", "toFloatSlice", "toBoolSlice":
			v = c19bList(r, 1)
		case "keys":
			if r.Chance(4, 5) {
				v = c19bMap(r)
			} else {
				v = c19bValue(r)
			}
		default:
			v = c19bValue(r)
		}
		add(op, v)
	}
	return cases
}
