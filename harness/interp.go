package main

// Running anko programs on the real interpreter under a counting context and a
// host pool that logs its calls; projecting results, traces and bindings to the
// canonical text the Coq model prints (coq/Interp/InterpDriver.v).

import (
	"context"
	"encoding/hex"
	"fmt"
	"math"
	"net/url"
	"reflect"
	"sort"
	"strconv"
	"strings"
	"time"

	anko "github.com/mattn/anko/ast"
	"github.com/mattn/anko/env"
	"github.com/mattn/anko/parser"
	"github.com/mattn/anko/vm"
)

// ---- counting context: Done() is what the interpreter polls ----
type countCtx struct {
	onCancel func() // called when the first poll that sees Done is made
	calls    int
	cancelAt int // the poll with this index (0-based) and all later ones see Done; -1 never
	open     chan struct{}
	closed   chan struct{}
}

func newCountCtx(cancelAt int) *countCtx {
	c := &countCtx{cancelAt: cancelAt, open: make(chan struct{}), closed: make(chan struct{})}
	close(c.closed)
	return c
}

// newDeadlineCtx also cancels after a wall-clock delay, so that a script blocked on a channel
// (which polls nothing) is released
func newDeadlineCtx(cancelAt int, d time.Duration) *countCtx {
	c := newCountCtx(cancelAt)
	time.AfterFunc(d, func() { close(c.open) })
	return c
}
func (c *countCtx) Deadline() (time.Time, bool) { return time.Time{}, false }
func (c *countCtx) Done() <-chan struct{} {
	n := c.calls
	c.calls++
	if c.cancelAt >= 0 && n >= c.cancelAt {
		if n == c.cancelAt && c.onCancel != nil {
			c.onCancel()
		}
		return c.closed
	}
	return c.open
}
func (c *countCtx) Err() error {
	if c.cancelAt >= 0 && c.calls > c.cancelAt {
		return context.Canceled
	}
	return nil
}
func (c *countCtx) Value(key interface{}) interface{} { return nil }

// ---- projection ----
func projValue(x interface{}, depth int) string {
	if depth <= 0 {
		return "..."
	}
	if x == nil {
		return "nil"
	}
	switch v := x.(type) {
	case bool:
		if v {
			return "b:true"
		}
		return "b:false"
	case int64:
		return "i:" + strconv.FormatInt(v, 10)
	case float64:
		if v != v {
			return "f:nan"
		}
		return "f:" + strconv.FormatUint(math.Float64bits(v), 10)
	case string:
		return "s:" + hex.EncodeToString([]byte(v))
	case []interface{}:
		var p []string
		for _, e := range v {
			p = append(p, projValue(e, depth-1))
		}
		return "[" + strings.Join(p, ",") + "]"
	case map[interface{}]interface{}:
		type kv struct{ k, v string }
		var kvs []kv
		for k, e := range v {
			kvs = append(kvs, kv{projValue(k, depth-1), projValue(e, depth-1)})
		}
		sort.SliceStable(kvs, func(i, j int) bool { return kvs[i].k < kvs[j].k })
		var p []string
		for _, e := range kvs {
			p = append(p, e.k+"=>"+e.v)
		}
		return "{" + strings.Join(p, ",") + "}"
	case *env.Env:
		return "env"
	case error:
		return "err"
	case vm.Error: // for-in dereferences pointer elements: *vm.Error becomes the struct
		return "err"
	}
	rv := reflect.ValueOf(x)
	switch rv.Kind() {
	case reflect.Func:
		return "func"
	case reflect.Int, reflect.Int8, reflect.Int16, reflect.Int32, reflect.Int64, reflect.Uint, reflect.Uint8, reflect.Uint16, reflect.Uint32, reflect.Uint64,
		reflect.Bool, reflect.String, reflect.Float32, reflect.Float64:
		// Go values of other scalar types (int, named types): type and value, no addresses
		return fmt.Sprintf("other:%s:%v", rv.Type(), rv.Interface())
	case reflect.Slice, reflect.Array:
		switch rv.Type().Elem().Kind() {
		case reflect.Int, reflect.Int8, reflect.Int16, reflect.Int32, reflect.Int64, reflect.Uint, reflect.Uint8, reflect.Uint16, reflect.Uint32, reflect.Uint64,
			reflect.Bool, reflect.String, reflect.Float32, reflect.Float64:
			return fmt.Sprintf("other:%s:%v", rv.Type(), rv.Interface())
		}
	}
	return "other:" + rv.Type().String()
}

const projDepth = 12

func projErr(err error) string {
	switch err {
	case vm.ErrInterrupt:
		return "interrupt"
	case vm.ErrBreak:
		return "break"
	case vm.ErrContinue:
		return "continue"
	case vm.ErrReturn:
		return "return"
	}
	if err.Error() == "execution interrupted" {
		return "interrupted-wrapped"
	}
	return "error"
}

// ---- host pool (same ids and behaviour as host_call in coq/Interp/Model.v) ----
type hostPool struct{ trace []string }

func (h *hostPool) log(vs ...interface{}) {
	var p []string
	for _, v := range vs {
		p = append(p, projValue(v, projDepth))
	}
	h.trace = append(h.trace, "("+strings.Join(p, ",")+")")
}

var hostNames = []string{"probe", "probe2", "hvar", "hpair", "hpanic", "hnone", "hfix3", "hzero", "hid", "mkdur", "mkvals", "mkints", "mkptr", "hsend", "hcall0", "hcall1", "hcallr", "hcall2", "mkarr", "mkarrs", "hsum", "hjoin", "hfix2t"}

func (h *hostPool) define(e *env.Env) {
	e.Define("probe", func(x interface{}) interface{} { h.log(x); return x })
	e.Define("probe2", func(a, b interface{}) interface{} { h.log(a, b); return a })
	e.Define("hvar", func(xs ...interface{}) interface{} { h.log(xs...); return int64(len(xs)) })
	e.Define("hpair", func(a interface{}) (interface{}, interface{}) { return a, a })
	e.Define("hpanic", func(x interface{}) interface{} { panic(fmt.Errorf("boom")) })
	e.Define("hnone", func(x interface{}) { h.log(x) })
	e.Define("hfix3", func(a, b, c interface{}) interface{} { h.log(a, b, c); return c })
	e.Define("hzero", func() interface{} { h.log(); return int64(7) })
	e.Define("hid", func(x interface{}) interface{} { return x })
	// Go functions with typed parameters: a conversion can fail between two operands (directed programs only)
	e.Define("hsum", func(prefix string, xs ...int64) int64 { var t int64; for _, x := range xs { t += x }; return t })
	e.Define("hjoin", func(xs ...string) string { return strings.Join(xs, "") })
	e.Define("hfix2t", func(a int64, b string, c int64) int64 { return a + c })
	e.Define("hsend", func(c chan interface{}, v interface{}) { c <- v }) // a Go function to start with `go` (directed programs only)
	// Go functions that call a script function back through func types without and with results (directed programs only)
	e.Define("hcall0", func(f func()) { h.log("in0"); f(); h.log("out0") })
	e.Define("hcall1", func(f func(interface{}), x interface{}) interface{} { h.log("in1"); f(x); h.log("out1"); return x })
	e.Define("hcallr", func(f func() interface{}) interface{} { h.log("inr"); r := f(); h.log("outr"); return r })
	e.Define("hcall2", func(f func(), g func()) { h.log("in2"); f(); g(); h.log("out2") })
	// Go values of named non-struct types that carry methods (used by impl-only programs; not in the model)
	e.Define("mkdur", func() time.Duration { return 1500 * time.Millisecond })
	e.Define("mkvals", func() url.Values { return url.Values{"k": {"one", "two"}} })
	e.Define("mkints", func() sort.IntSlice { return sort.IntSlice{3, 1, 2} })
	e.Define("mkptr", func() *time.Duration { d := 90 * time.Second; return &d })
	e.Define("mkarr", func() [3]int64 { return [3]int64{1, 2, 3} })
	e.Define("mkarrs", func() [2][]string { return [2][]string{{"a"}, {"b", "c"}} })
}

type interpResult struct {
	Status   string `json:"status"` // ok err panic parse-error
	Result   string `json:"result"`
	Trace    string `json:"trace"`
	Bindings string `json:"bindings"`
	Polls    int    `json:"polls"`
	Msg      string `json:"msg,omitempty"`
	// number of host-pool calls logged when the cancellation was first seen (-1: never cancelled)
	TraceAtCancel int      `json:"trace_at_cancel"`
	TraceList     []string `json:"trace_list,omitempty"`
}

func (r interpResult) line() string {
	if r.Status == "panic" {
		return "panic"
	}
	return fmt.Sprintf("(%s %s %s %s %d)", r.Status, sxAtom(r.Result), sxAtom(r.Trace), sxAtom(r.Bindings), r.Polls)
}

// how ocaml/driver.ml prints an atom
func sxAtom(s string) string {
	plain := s != ""
	for _, c := range []byte(s) {
		if !((c >= 'a' && c <= 'z') || (c >= 'A' && c <= 'Z') || (c >= '0' && c <= '9') || c == '-' || c == '_' || c == '.' || c == ':') {
			plain = false
		}
	}
	if plain {
		return s
	}
	return sxStr(s)
}

// interpPlain as cancelAt: run with vm.Run instead of vm.RunContext (directed programs whose first line is "#plain")
const interpPlain = -2

// runImpl executes stmt (already parsed) in a fresh environment with the host pool.
func runImpl(stmt anko.Stmt, cancelAt int) (res interpResult) {
	h := &hostPool{}
	e := env.NewEnv()
	h.define(e)
	ctx := newCountCtx(cancelAt)
	res.TraceAtCancel = -1
	atCancel := -1
	ctx.onCancel = func() { atCancel = len(h.trace) }
	defer func() {
		if p := recover(); p != nil {
			res = interpResult{Status: "panic", Msg: fmt.Sprint(p)}
		}
	}()
	var v interface{}
	var err error
	if cancelAt == interpPlain {
		// the entry point most hosts use: no context, so nothing that could ever be cancelled (ctx.Done() == nil)
		v, err = vm.Run(e, &vm.Options{Debug: false}, stmt)
	} else {
		v, err = vm.RunContext(ctx, e, &vm.Options{Debug: false}, stmt)
	}
	res.Polls = ctx.calls
	res.Trace = strings.Join(h.trace, ";")
	res.TraceAtCancel = atCancel
	if cancelAt >= 0 {
		res.TraceList = h.trace
	}
	var names []string
	isHost := map[string]bool{}
	for _, n := range hostNames {
		isHost[n] = true
	}
	for _, n := range e.GetValueSymbols() {
		if !isHost[n] {
			names = append(names, n)
		}
	}
	sort.Strings(names)
	var bs []string
	for _, n := range names {
		rv, gerr := e.GetValue(n)
		if gerr != nil || !rv.IsValid() {
			bs = append(bs, n+"=invalid")
			continue
		}
		bs = append(bs, n+"="+projValue(rv.Interface(), projDepth))
	}
	res.Bindings = strings.Join(bs, ";")
	if err != nil {
		res.Status = "err"
		res.Result = projErr(err)
		res.Msg = err.Error()
		return
	}
	res.Status = "ok"
	res.Result = projValue(v, projDepth)
	return
}

// oracle entries for the literals of a program: strconv.ParseFloat and fmt.Sprint of floats
func oracleFor(stmt anko.Stmt, extraStrs []string, extraFloats []float64) string {
	strs := map[string]bool{}
	floats := map[uint64]bool{}
	collectLiterals(stmt, strs, floats)
	for _, s := range extraStrs {
		strs[s] = true
	}
	for _, f := range extraFloats {
		floats[math.Float64bits(f)] = true
	}
	// values every arithmetic program can reach
	for _, f := range []float64{math.Inf(1), math.Inf(-1), math.NaN(), 0, math.Copysign(0, -1), 1, -1} {
		floats[math.Float64bits(f)] = true
	}
	var sk []string
	for s := range strs {
		sk = append(sk, s)
	}
	sort.Strings(sk)
	var pf []string
	for _, s := range sk {
		f, err := strconv.ParseFloat(s, 64)
		if err != nil {
			pf = append(pf, sxList(sxStr(s), "()"))
		} else {
			pf = append(pf, sxList(sxStr(s), sxList(fmt.Sprint(math.Float64bits(f)))))
		}
	}
	var fk []uint64
	for b := range floats {
		fk = append(fk, b)
	}
	sort.Slice(fk, func(i, j int) bool { return fk[i] < fk[j] })
	var ff []string
	for _, b := range fk {
		ff = append(ff, sxList(fmt.Sprint(b), sxStr(fmt.Sprint(math.Float64frombits(b)))))
	}
	return sxList(sxList(pf...), sxList(ff...))
}

type interpCase struct {
	Src      string       `json:"src"`
	CancelAt int          `json:"cancel_at"`
	Impl     interpResult `json:"impl"`
	Tags     []string     `json:"tags,omitempty"`
}

// interpLine builds the driver input for one program; ok=false when it does not parse
func interpLine(src string, cancelAt int) (line string, c interpCase, ok bool) {
	stmt, err := parser.ParseSrc(src)
	if err != nil {
		return "", interpCase{Src: src, Impl: interpResult{Status: "parse-error", Msg: err.Error()}}, false
	}
	if why := superBegin(); why != "" {
		// an earlier attempt died or hung on this program: do not run it again
		c = interpCase{Src: src, CancelAt: cancelAt, Impl: interpResult{Status: "crash", Msg: why}}
	} else {
		c = interpCase{Src: src, CancelAt: cancelAt, Impl: runImpl(stmt, cancelAt)}
	}
	prog := "()"
	if stmt != nil {
		prog = "(" + dumpNode(stmt) + ")"
	}
	line = "interp " + sxList(oracleFor(stmt, nil, nil), sxOptInt(cancelAt), prog)
	return line, c, true
}
