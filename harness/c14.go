package main

// C14: runs are isolated and repeatable; executing a tree never changes it.
//  - dynamic: parse once, dump the tree (every field, positions, literal values, CallExpr.Func
//    validity), run it several times one after another and from several goroutines at once on
//    separate fresh environments (built with -race), compare dumps and results;
//  - static: every write in package vm whose target is a field of an ast node that was not
//    created in the same function (go/types), emitted as a Coq list with the obligation "= []".

import (
	"encoding/json"
	"fmt"
	"go/ast"
	"go/importer"
	"go/parser"
	"go/token"
	"go/types"
	"os"
	"path/filepath"
	"reflect"
	"sort"
	"strings"
	"sync"
	"time"

	anko "github.com/mattn/anko/ast"
	"github.com/mattn/anko/env"
	_ "github.com/mattn/anko/packages"
	ankoparser "github.com/mattn/anko/parser"
	"github.com/mattn/anko/vm"
)

// fullDump prints every field of every node, including positions and unexported-free runtime slots
func fullDump(n interface{}, b *strings.Builder, depth int) {
	v := reflect.ValueOf(n)
	if !v.IsValid() || (v.Kind() == reflect.Ptr && v.IsNil()) {
		b.WriteString("nil")
		return
	}
	if depth > 400 {
		b.WriteString("...")
		return
	}
	if p, ok := n.(anko.Pos); ok {
		pos := p.Position()
		fmt.Fprintf(b, "@%d:%d", pos.Line, pos.Column)
	}
	t := v.Type().Elem()
	s := v.Elem()
	b.WriteString("(" + t.Name())
	for i := 0; i < t.NumField(); i++ {
		f := t.Field(i)
		if f.Anonymous {
			continue
		}
		fv := s.Field(i)
		b.WriteString(" " + f.Name + "=")
		switch {
		case f.Type == reflectValueT:
			rv := fv.Interface().(reflect.Value)
			if !rv.IsValid() {
				b.WriteString("<invalid>")
			} else {
				fmt.Fprintf(b, "<%s %v>", rv.Type(), dumpLiteral(rv))
			}
		case f.Type == typeStructPtr:
			b.WriteString(dumpTypeStruct(fv.Interface().(*anko.TypeStruct)))
		case f.Type.Kind() == reflect.Slice && f.Type.Elem().Kind() == reflect.Interface:
			fmt.Fprintf(b, "[%d:", fv.Len())
			for j := 0; j < fv.Len(); j++ {
				if fv.Index(j).IsNil() {
					b.WriteString("nil")
				} else {
					fullDump(fv.Index(j).Interface(), b, depth+1)
				}
				b.WriteString(",")
			}
			b.WriteString("]")
		case f.Type.Kind() == reflect.Interface:
			if fv.IsNil() {
				b.WriteString("nil")
			} else {
				fullDump(fv.Interface(), b, depth+1)
			}
		default:
			fmt.Fprintf(b, "%#v", fv.Interface())
		}
	}
	b.WriteString(")")
}

func treeDump(stmt anko.Stmt) string {
	var b strings.Builder
	if stmt == nil {
		return "nil"
	}
	fullDump(stmt, &b, 0)
	return b.String()
}

type c14Result struct {
	Src        string   `json:"src"`
	Problems   []string `json:"problems,omitempty"`
	Runs       int      `json:"runs"`
	Concurrent int      `json:"concurrent"`
	Solo       string   `json:"solo"`
}

func c14RunTree(stmt anko.Stmt) string {
	r := runImpl(stmt, 300)
	return fmt.Sprintf("%s|%s|%s|%s", r.Status, r.Result, r.Trace, r.Bindings)
}

func c14One(src string) (*c14Result, bool) {
	stmt, err := ankoparser.ParseSrc(src)
	if err != nil || stmt == nil {
		return nil, false
	}
	res := &c14Result{Src: src}
	d0 := treeDump(stmt)
	solo := c14RunTree(stmt)
	res.Solo = solo
	if d := treeDump(stmt); d != d0 {
		res.Problems = append(res.Problems, "the tree differs after the first run: "+firstDiff(d0, d))
	}
	for k := 2; k <= 4; k++ {
		r := c14RunTree(stmt)
		res.Runs = k
		if r != solo {
			res.Problems = append(res.Problems, fmt.Sprintf("run %d of the same tree differs from run 1: %s vs %s", k, clip(r), clip(solo)))
		}
		if d := treeDump(stmt); d != d0 {
			res.Problems = append(res.Problems, fmt.Sprintf("the tree differs after run %d: %s", k, firstDiff(d0, d)))
		}
	}
	// the same tree from several goroutines at once, each on its own environment
	const par = 6
	outs := make([]string, par)
	var wg sync.WaitGroup
	for g := 0; g < par; g++ {
		wg.Add(1)
		go func(g int) {
			defer wg.Done()
			outs[g] = c14RunTree(stmt)
		}(g)
	}
	wg.Wait()
	res.Concurrent = par
	for g, o := range outs {
		if o != solo {
			res.Problems = append(res.Problems, fmt.Sprintf("concurrent run %d differs from the solo run: %s vs %s", g, clip(o), clip(solo)))
			break
		}
	}
	if d := treeDump(stmt); d != d0 {
		res.Problems = append(res.Problems, "the tree differs after the concurrent runs: "+firstDiff(d0, d))
	}
	// a freshly parsed copy gives the same tree: parsing keeps no memory
	stmt2, err2 := ankoparser.ParseSrc(src)
	if err2 != nil || treeDump(stmt2) != d0 {
		res.Problems = append(res.Problems, "parsing the same text again gives a different tree")
	}
	return res, true
}

func clip(s string) string {
	if len(s) > 160 {
		return s[:160] + "..."
	}
	return s
}

func firstDiff(a, b string) string {
	i := 0
	for i < len(a) && i < len(b) && a[i] == b[i] {
		i++
	}
	lo := i - 60
	if lo < 0 {
		lo = 0
	}
	ha, hb := i+60, i+60
	if ha > len(a) {
		ha = len(a)
	}
	if hb > len(b) {
		hb = len(b)
	}
	return fmt.Sprintf("before ...%s... after ...%s...", a[lo:ha], b[lo:hb])
}

func packagesFingerprint() string {
	var names []string
	for p, tbl := range env.Packages {
		var ks []string
		for k, v := range tbl {
			ks = append(ks, fmt.Sprintf("%s:%s", k, v.Type()))
		}
		sort.Strings(ks)
		names = append(names, p+"{"+strings.Join(ks, ",")+"}")
	}
	for p, tbl := range env.PackageTypes {
		var ks []string
		for k, v := range tbl {
			ks = append(ks, fmt.Sprintf("%s:%v", k, v))
		}
		sort.Strings(ks)
		names = append(names, "T:"+p+"{"+strings.Join(ks, ",")+"}")
	}
	sort.Strings(names)
	return strings.Join(names, ";")
}

// directed isolation scenarios: (setup program in env A, probe program in env B, expectation)
func c14Isolation() []string {
	var problems []string
	run := func(e *env.Env, src string) (interface{}, error) { return vm.Execute(e, nil, src) }
	a, b := env.NewEnv(), env.NewEnv()
	if _, err := run(a, "x = 1; func f() { return 2 }; module m { y = 3 }"); err != nil {
		problems = append(problems, "setup failed: "+err.Error())
	}
	for _, name := range []string{"x", "f", "m"} {
		if _, err := run(b, name); err == nil {
			problems = append(problems, "a binding of one environment is visible in another: "+name)
		}
	}
	// the package's own nil cell handed to DefineValue / SetValue by a host: a store through a pointer to the symbol stays with it
	for _, how := range []string{"DefineValue", "SetValue", "DefineGlobalValue"} {
		c, d := env.NewEnv(), env.NewEnv()
		switch how {
		case "DefineValue":
			c.DefineValue("x", env.NilValue)
			d.DefineValue("y", env.NilValue)
		case "SetValue":
			c.Define("x", int64(0))
			d.Define("y", int64(0))
			c.SetValue("x", env.NilValue)
			d.SetValue("y", env.NilValue)
		default:
			c.NewEnv().DefineGlobalValue("x", env.NilValue)
			d.NewEnv().DefineGlobalValue("y", env.NilValue)
		}
		run(c, "p = &x; *p = 5")
		if v, err := run(d, "y"); err != nil || v != nil {
			problems = append(problems, fmt.Sprintf("a symbol bound to env.NilValue with %s in one environment reads %v %v after `p = &x; *p = 5` in another", how, v, err))
		}
		if v, _ := env.NewEnv().Get("nothing-of-that-name"); v != nil {
			problems = append(problems, fmt.Sprintf("after `p = &x; *p = 5` on a symbol bound to env.NilValue with %s the nil of the whole process is %v", how, v))
		}
		env.NilValue.Set(reflect.Zero(env.NilValue.Type()))
	}
	// one tree, environments that bind different names: whether an assignment declares or updates is decided by the environment
	// of the run, not by what an earlier run of the same tree found
	{
		type mk struct {
			name string
			make func() *env.Env
		}
		names := []string{"last", "x", "y", "z"}
		makers := []mk{
			{"nothing bound", func() *env.Env { return env.NewEnv() }},
			{"names bound in the run's scope", func() *env.Env {
				e := env.NewEnv()
				for _, n := range names {
					e.Define(n, int64(0))
				}
				return e
			}},
			{"names bound in a parent scope", func() *env.Env {
				e := env.NewEnv()
				for _, n := range names {
					e.Define(n, int64(0))
				}
				return e.NewEnv()
			}},
		}
		show := func(e *env.Env, v interface{}, err error) string {
			out := fmt.Sprintf("%v|%v", v, err)
			for _, n := range names {
				x, gerr := e.Get(n) // the nearest binding seen from the run's scope
				out += fmt.Sprintf("|%s=%v,%v", n, x, gerr != nil)
			}
			return out
		}
		for _, src := range []string{"func note(v) { last = v }; note(5); last ?? \"unset\"", "x = 1; x", "func f() { x = 1 }; f(); x ?? \"none\"", "for i in [1] { y = i }; y ?? \"none\"",
			"if true { z = 2 }; z ?? \"none\"", "func g() { func h() { z = 3 }; h() }; g(); z ?? \"none\"", "try { throw 1 } catch e { y = 4 }; y ?? \"none\"", "x, y = 1, 2; [x, y]", "x += 1; x"} {
			for _, first := range makers {
				for _, second := range makers {
					if first.name == second.name {
						continue
					}
					shared, perr := ankoparser.ParseSrc(src)
					fresh, _ := ankoparser.ParseSrc(src)
					if perr != nil {
						problems = append(problems, "does not parse: "+src)
						continue
					}
					vm.Run(first.make(), nil, shared)
					e2 := second.make()
					v2, err2 := vm.Run(e2, nil, shared)
					e3 := second.make()
					v3, err3 := vm.Run(e3, nil, fresh)
					if a, b := show(e2, v2, err2), show(e3, v3, err3); a != b {
						problems = append(problems, fmt.Sprintf("`%s` run with %s after a run of the same tree with %s gives %s, alone it gives %s", src, second.name, first.name, a, b))
					}
				}
			}
		}
	}
	// import: each importing environment gets its own copy of the package's symbol table
	fp0 := packagesFingerprint()
	v1, err1 := run(a, "s = import(\"strings\"); s.ToUpper(\"a\")")
	if err1 != nil || v1 != "A" {
		problems = append(problems, fmt.Sprintf("import(\"strings\") does not work: %v %v", v1, err1))
	}
	if _, err := run(a, "t = import(\"strings\"); t.ToUpper = func(x) { return \"changed\" }; t.ToUpper(\"a\")"); err != nil {
		problems = append(problems, "redefining a member of an imported copy failed: "+err.Error())
	}
	v2, err2 := run(b, "s = import(\"strings\"); s.ToUpper(\"a\")")
	if err2 != nil || v2 != "A" {
		problems = append(problems, fmt.Sprintf("a change made through one import is visible in another environment: %v %v", v2, err2))
	}
	v3, err3 := run(a, "u = import(\"strings\"); u.ToUpper(\"a\")")
	if err3 != nil || v3 != "A" {
		problems = append(problems, fmt.Sprintf("a change made through one import is visible in a later import of the same environment: %v %v", v3, err3))
	}
	// what an import yields belongs to the importing environment: names it does not hold resolve in that environment,
	// and a write through the import expression itself stays with that one import
	for round := 0; round < 2; round++ {
		for _, who := range []string{"alice", "bob", "carol"} {
			e := env.NewEnv()
			e.Define("who", who)
			for _, pkg := range []string{"strings", "sort", "strings"} {
				v, err := run(e, "p = import(\""+pkg+"\"); q = import(\"strings\"); q.ToUpper(p.who)")
				if err != nil || v != strings.ToUpper(who) {
					problems = append(problems, fmt.Sprintf("import(%q) in an environment that binds who = %q: p.who resolves to %v %v", pkg, who, v, err))
				}
			}
		}
	}
	run(a, "import(\"strings\").Marker = \"left by a\"")
	run(a, "import(\"strings\").ToLower = func(x) { return \"patched\" }")
	for _, e := range []*env.Env{a, b, env.NewEnv()} {
		if v, err := run(e, "import(\"strings\").Marker"); err == nil {
			problems = append(problems, fmt.Sprintf("a member stored through one import expression is visible through another import: %v", v))
		}
		if v, err := run(e, "import(\"strings\").ToLower(\"A\")"); err != nil || v != "a" {
			problems = append(problems, fmt.Sprintf("a member replaced through one import expression is replaced for another import: %v %v", v, err))
		}
	}
	// copies of one prepared template (the host binds nil and a number in it) stay separate also for stores through pointers
	for _, deep := range []bool{false, true} {
		tmpl := env.NewEnv()
		tmpl.Define("tn", nil)
		tmpl.Define("ti", int64(1))
		mk := func() *env.Env {
			if deep {
				return tmpl.NewEnv().DeepCopy()
			}
			return tmpl.Copy()
		}
		c1, c2 := mk(), mk()
		run(c1, "p = &tn; *p = 5; q = &ti; *q = 6")
		for _, name := range []string{"tn", "ti"} {
			want := map[string]string{"tn": "<nil>", "ti": "1"}[name]
			if v, _ := run(c2, name); fmt.Sprint(v) != want {
				problems = append(problems, fmt.Sprintf("copies of one template (deep=%v): a store through &%s in one copy shows in another copy: %v", deep, name, v))
			}
			if v, _ := run(tmpl, name); fmt.Sprint(v) != want {
				problems = append(problems, fmt.Sprintf("copies of one template (deep=%v): a store through &%s in a copy shows in the template: %v", deep, name, v))
			}
		}
	}
	// a package table may hold addressable entries (env.NilValue, which env.go names as the value to register for nil, is one):
	// what a script stores through a pointer to such a member stays in its own import
	nilBefore := fmt.Sprint(env.NilValue.Interface())
	cell := reflect.New(reflect.TypeOf(int64(0))).Elem()
	cell.SetInt(3)
	env.Packages["zzisolation"] = map[string]reflect.Value{"None": env.NilValue, "Cell": cell, "Plain": reflect.ValueOf(int64(7))}
	for _, member := range []string{"None", "Cell", "Plain"} {
		e1, e2 := env.NewEnv(), env.NewEnv()
		first, _ := run(e2, "import(\"zzisolation\")."+member)
		run(e1, "p = import(\"zzisolation\"); q = &p."+member+"; *q = 5")
		run(e1, "import(\"zzisolation\")."+member+" = 6")
		for _, e := range []*env.Env{e1, e2, env.NewEnv()} {
			if v, err := run(e, "import(\"zzisolation\")."+member); err != nil || fmt.Sprint(v) != fmt.Sprint(first) {
				problems = append(problems, fmt.Sprintf("a store through a pointer to the package member %s of one import shows in another import: %v %v (before: %v)", member, v, err, first))
			}
		}
	}
	delete(env.Packages, "zzisolation")
	// the address of a temporary is the address of a copy: a store through &f() (f ending in a try whose body failed hands
	// out the environment package's own nil) or through &(f()) reaches nothing another run can see
	{
		e1, e2 := env.NewEnv(), env.NewEnv()
		for _, src := range []string{"f = func() { try { zzz } catch { } }; p = &f(); *p = 5", "f = func() { try { zzz } catch { } }; p = &(f()); *p = 6",
			"g = func() { }; p = &g(); *p = 7", "p = &nil; *p = 8", "p = &(nil ?? nil); *p = 9", "func h() { return nosuch ?? nil }; p = &h(); *p = 10"} {
			run(e1, src)
			for _, probe := range []string{"try { zzz } catch { }", "func k() { }; k()", "nil", "[nil][0]", "{}.nothing"} {
				if v, err := run(e2, probe); err != nil || v != nil {
					problems = append(problems, fmt.Sprintf("after %q ran in one environment, %q yields %v %v in another", src, probe, v, err))
				}
			}
		}
	}
	if now := fmt.Sprint(env.NilValue.Interface()); now != nilBefore {
		problems = append(problems, "a script changed env.NilValue for the whole process: it now holds "+now)
		env.NilValue.Set(reflect.Zero(env.NilValue.Type()))
	}
	// what a run leaves behind in its environment keeps belonging to that environment: closures made inside branches, loops,
	// try blocks and switch cases of one shared tree are called after the tree has run in other environments
	for _, src := range []string{
		"get = nil; if who != \"\" { get = func() { return who } }",
		"get = nil; if who == \"\" { } else if true { get = func() { return who } }",
		"get = nil; if who == \"\" { } else { get = func() { return who } }",
		"get = nil; for i in [1] { get = func() { return who } }",
		"get = nil; for i = 0; i < 1; i++ { get = func() { return who } }",
		"get = nil; try { get = func() { return who } } catch e { }",
		"get = nil; try { throw 1 } catch e { get = func() { return who } }",
		"get = nil; switch 1 {\ncase 1: get = func() { return who }\n}",
		"get = nil; func mk() { return func() { return who } }; get = mk()",
		"get = nil; module m { func g() { return who } }; get = m.g"} {
		tree, err := ankoparser.ParseSrc(src)
		if err != nil {
			problems = append(problems, "does not parse: "+src)
			continue
		}
		names := []string{"alice", "bob", "carol", "dave"}
		var envs []*env.Env
		for _, n := range names {
			e := env.NewEnv()
			e.Define("who", n)
			envs = append(envs, e)
			if _, err := vm.Run(e, nil, tree); err != nil {
				problems = append(problems, fmt.Sprintf("%q fails: %v", src, err))
			}
		}
		for round := 0; round < 2; round++ {
			for i, e := range envs {
				if v, err := run(e, "get()"); err != nil || v != names[i] {
					problems = append(problems, fmt.Sprintf("%q run on four environments in turn: the closure left in the environment of %s answers %v %v", src, names[i], v, err))
				}
			}
		}
	}
	// runs that are deep in their own recursion at the same moment do not draw on anything common: one tree, six fresh
	// environments, every run waits at the bottom of its recursion until all have arrived
	if tree, err := ankoparser.ParseSrc("func down(n) { if n == 0 { arrive(); return 0 }; return 1 + down(n - 1) }; down(2500)"); err == nil {
		const k = 6
		var barrier sync.WaitGroup
		barrier.Add(k)
		arrived := make(chan struct{})
		go func() { barrier.Wait(); close(arrived) }()
		outs := make([]string, k)
		var wg sync.WaitGroup
		for g := 0; g < k; g++ {
			wg.Add(1)
			go func(g int) {
				defer wg.Done()
				e := env.NewEnv()
				e.Define("arrive", func() {
					barrier.Done()
					select {
					case <-arrived:
					case <-time.After(20 * time.Second):
					}
				})
				v, err := vm.Run(e, nil, tree)
				outs[g] = fmt.Sprint(v, " ", err)
				if err != nil { // a run that never reached the bottom must not hold the others up
					defer func() { recover() }()
					barrier.Done()
				}
			}(g)
		}
		wg.Wait()
		for g, o := range outs {
			if o != "2500 <nil>" {
				problems = append(problems, fmt.Sprintf("six runs of one tree, each 2500 calls deep at the same moment on its own fresh environment: run %d yields %s, alone it yields 2500", g, o))
			}
		}
	}
	if fp := packagesFingerprint(); fp != fp0 {
		problems = append(problems, "the shared package tables were modified by running scripts")
	}
	// environments copied from one prepared template (values and types defined in it) stay separate
	for _, deep := range []bool{false, true} {
		tmpl := env.NewEnv()
		tmpl.Define("base", int64(1))
		tmpl.DefineType("Base", int64(0))
		cp := func() *env.Env {
			if deep {
				return tmpl.DeepCopy()
			}
			return tmpl.Copy()
		}
		kind := map[bool]string{false: "Copy", true: "DeepCopy"}[deep]
		c1, c2 := cp(), cp()
		if _, err := run(c1, "make(type Mine, 1.5); own = 2; base = 10; make(type Base, \"s\"); [make(Mine), own, base]"); err != nil {
			problems = append(problems, kind+" of a template: the first copy cannot define its own names: "+err.Error())
		}
		for who, e := range map[string]*env.Env{"the second copy": c2, "the template": tmpl, "a later copy": cp()} {
			if _, err := run(e, "make(Mine)"); err == nil {
				problems = append(problems, kind+" of a template: a type defined at top level in one copy is visible in "+who)
			}
			if _, err := run(e, "own"); err == nil {
				problems = append(problems, kind+" of a template: a value defined in one copy is visible in "+who)
			}
			if v, err := run(e, "[base, make(Base)]"); err != nil || fmt.Sprint(v) != "[1 0]" {
				problems = append(problems, fmt.Sprintf("%s of a template: a redefinition in one copy changed %s: [base, make(Base)] = %v %v", kind, who, v, err))
			}
		}
	}
	return problems
}

// ---- one tree, different environments: each run yields what it would yield alone ----
type c14EnvMaker func() (*env.Env, *[]string)

func c14Envs() []c14EnvMaker {
	mk := func(tag string, typ interface{}, k interface{}, l interface{}, fnRet func(interface{}) interface{}) c14EnvMaker {
		return func() (*env.Env, *[]string) {
			e := env.NewEnv()
			log := &[]string{}
			if typ != nil { // environment D leaves T undefined: runs that need it fail there
				e.DefineType("T", typ)
			}
			e.Define("K", k)
			e.Define("L", l)
			e.Define("fn", func(x interface{}) interface{} { *log = append(*log, tag+":"+c10ProjT(x)); return fnRet(x) })
			e.Define("fn0", func() interface{} { *log = append(*log, tag+":fn0"); return k })
			m, _ := e.NewModule("M")
			m.Define("v", k)
			vm.Execute(e, nil, "func sf(x) { return [\""+tag+"\", x] }")
			return e, log
		}
	}
	return []c14EnvMaker{
		mk("A", int64(0), int64(2), []interface{}{int64(1), int64(2)}, func(x interface{}) interface{} { return x }),
		mk("B", float64(0), 2.5, []interface{}{"p", "q", "r"}, func(x interface{}) interface{} { return []interface{}{x} }),
		mk("C", "", "s", []interface{}{}, func(x interface{}) interface{} { return nil }),
		mk("D", nil, int64(4), []interface{}{int64(9)}, func(x interface{}) interface{} { return x }),
	}
}

var c14VariantPrograms = []string{
	"a = make(struct { A T }); a.A = K; a", "x = make([]T, 1); x[0] = K; x", "x = make([][]T, 1); x", "[][]T{[K]}", "make(map[string][][]T)", "make([][][]T, 2)",
	"make(struct { A [][]T, B map[string][]T })", "make(T)", "p = new(T); *p", "[]T{K}", "map[string]T{\"k\": K}", "make(map[T]bool)",
	"c = make(chan T, 1); c <- K; (<- c)", "fn(K)", "f = func(v) { return fn(v) }; f(K)", "func g() { defer fn(K); return fn0() }; g()", "r = []; for i in L { r += fn(i) }; r",
	"M.v", "sf(K)", "[sf(1), fn0()]", "K + K", "x = K; x += K; [x, fn(x)]", "make(type U, K); make(U)", "func h(a) { return make(struct { F T, G []T }) }; h(1)",
	"switch K {\ncase fn0(): fn(1)\ndefault: fn(2)\n}", "t = make([]T, 0); t += [K]; t", "s = 0; for i = 0; i < 3; i++ { s += len(L); fn(i) }; s",
}

func c14RunIn(mk c14EnvMaker, stmt anko.Stmt) string {
	e, log := mk()
	out := ""
	func() {
		defer func() {
			if p := recover(); p != nil {
				out = "PANIC " + fmt.Sprint(p)
			}
		}()
		v, err := vm.Run(e, nil, stmt)
		if err != nil {
			out = "error " + err.Error()
			return
		}
		out = c10ProjT(v)
	}()
	return out + " | " + strings.Join(*log, ";")
}

// c14Variants: every program parsed once; the shared tree is run in the three environments in two orders and then in all of
// them at once; each result must equal what a fresh parse yields in a fresh copy of that environment.
func c14Variants() (problems []string, runs int) {
	envs := c14Envs()
	for _, src := range c14VariantPrograms {
		shared, err := ankoparser.ParseSrc(src)
		if err != nil {
			problems = append(problems, "does not parse: "+src)
			continue
		}
		d0 := treeDump(shared)
		solo := make([]string, len(envs))
		for i, mk := range envs {
			fresh, _ := ankoparser.ParseSrc(src)
			solo[i] = c14RunIn(mk, fresh)
		}
		for _, order := range [][]int{{0, 1, 2}, {2, 0, 1}, {1, 1, 0}, {3, 0, 3, 1}, {3, 3, 2}} {
			for _, i := range order {
				runs++
				if got := c14RunIn(envs[i], shared); got != solo[i] {
					problems = append(problems, fmt.Sprintf("%q: a tree already run in other environments yields %s in environment %d, alone it yields %s", src, clip(got), i, clip(solo[i])))
				}
			}
		}
		outs := make([]string, 2*len(envs))
		var wg sync.WaitGroup
		for g := range outs {
			wg.Add(1)
			go func(g int) {
				defer wg.Done()
				outs[g] = c14RunIn(envs[g%len(envs)], shared)
			}(g)
		}
		wg.Wait()
		for g, o := range outs {
			runs++
			if o != solo[g%len(envs)] {
				problems = append(problems, fmt.Sprintf("%q: run concurrently on differing environments it yields %s in environment %d, alone it yields %s", src, clip(o), g%len(envs), clip(solo[g%len(envs)])))
			}
		}
		if d := treeDump(shared); d != d0 {
			problems = append(problems, fmt.Sprintf("%q: the tree differs after runs in differing environments: %s", src, firstDiff(d0, d)))
		}
	}
	return problems, runs
}

// ---- static: writes to AST nodes in package vm ----
type astWrite struct {
	Pos    string `json:"pos"`
	Func   string `json:"func"`
	Target string `json:"target"`
	Fresh  bool   `json:"fresh"`
}

func vmAstWrites(repo string) ([]astWrite, error) {
	fset := token.NewFileSet()
	dir := filepath.Join(repo, "vm")
	pkgs, err := parser.ParseDir(fset, dir, func(fi os.FileInfo) bool {
		return !strings.HasSuffix(fi.Name(), "_test.go") && !strings.Contains(fi.Name(), "NotGo112")
	}, 0)
	if err != nil {
		return nil, err
	}
	var files []*ast.File
	for _, p := range pkgs {
		for _, f := range p.Files {
			files = append(files, f)
		}
	}
	sort.Slice(files, func(i, j int) bool {
		return fset.Position(files[i].Pos()).Filename < fset.Position(files[j].Pos()).Filename
	})
	info := &types.Info{Types: map[ast.Expr]types.TypeAndValue{}, Defs: map[*ast.Ident]types.Object{}, Uses: map[*ast.Ident]types.Object{}}
	conf := types.Config{Importer: importer.ForCompiler(fset, "source", nil), Error: func(error) {}}
	conf.Check("github.com/mattn/anko/vm", fset, files, info)
	isAstNode := func(t types.Type) bool {
		if t == nil {
			return false
		}
		if p, ok := t.(*types.Pointer); ok {
			t = p.Elem()
		}
		n, ok := t.(*types.Named)
		if !ok || n.Obj().Pkg() == nil {
			return false
		}
		if !strings.HasSuffix(n.Obj().Pkg().Path(), "/ast") {
			return false
		}
		_, isStruct := n.Underlying().(*types.Struct)
		return isStruct
	}
	var out []astWrite
	for _, f := range files {
		for _, d := range f.Decls {
			fd, ok := d.(*ast.FuncDecl)
			if !ok || fd.Body == nil {
				continue
			}
			// variables bound in this function to a freshly built node (&ast.X{...})
			fresh := map[types.Object]bool{}
			freshExpr := map[string]bool{} // e.g. runInfo.expr = &ast.CallExpr{...}
			ast.Inspect(fd.Body, func(n ast.Node) bool {
				as, ok := n.(*ast.AssignStmt)
				if !ok {
					return true
				}
				for i, lhs := range as.Lhs {
					if i >= len(as.Rhs) {
						break
					}
					if u, ok := as.Rhs[i].(*ast.UnaryExpr); ok && u.Op == token.AND {
						if _, ok := u.X.(*ast.CompositeLit); ok {
							freshExpr[types.ExprString(lhs)] = true
						}
					}
					id, ok := lhs.(*ast.Ident)
					if !ok {
						continue
					}
					if u, ok := as.Rhs[i].(*ast.UnaryExpr); ok && u.Op == token.AND {
						if _, ok := u.X.(*ast.CompositeLit); ok {
							if obj := info.Defs[id]; obj != nil {
								fresh[obj] = true
							} else if obj := info.Uses[id]; obj != nil {
								fresh[obj] = true
							}
						}
					}
				}
				return true
			})
			rootObj := func(e ast.Expr) types.Object {
				for {
					switch x := e.(type) {
					case *ast.SelectorExpr:
						e = x.X
					case *ast.IndexExpr:
						e = x.X
					case *ast.StarExpr:
						e = x.X
					case *ast.ParenExpr:
						e = x.X
					case *ast.Ident:
						if o := info.Uses[x]; o != nil {
							return o
						}
						return info.Defs[x]
					default:
						return nil
					}
				}
			}
			record := func(target ast.Expr, what string) {
				sel, ok := target.(*ast.SelectorExpr)
				var base ast.Expr
				if ok {
					base = sel.X
				} else if ix, ok2 := target.(*ast.IndexExpr); ok2 {
					if s2, ok3 := ix.X.(*ast.SelectorExpr); ok3 {
						base = s2.X
					}
				}
				if base == nil {
					return
				}
				tv, ok := info.Types[base]
				if !ok || !isAstNode(tv.Type) {
					return
				}
				ro := rootObj(base)
				out = append(out, astWrite{Pos: fset.Position(target.Pos()).String(), Func: fd.Name.Name,
					Target: what + " " + types.ExprString(target), Fresh: (ro != nil && fresh[ro]) || freshExpr[types.ExprString(base)]})
			}
			ast.Inspect(fd.Body, func(n ast.Node) bool {
				switch s := n.(type) {
				case *ast.AssignStmt:
					for _, lhs := range s.Lhs {
						record(lhs, "assign")
					}
				case *ast.IncDecStmt:
					record(s.X, "incdec")
				case *ast.CallExpr:
					if sel, ok := s.Fun.(*ast.SelectorExpr); ok && sel.Sel.Name == "SetPosition" {
						tv, ok := info.Types[sel.X]
						isNode := ok && (isAstNode(tv.Type) || strings.Contains(tv.Type.String(), "/ast."))
						if isNode {
							ro := rootObj(sel.X)
							// runInfo.expr.SetPosition on an expression assigned from a fresh literal just before
							out = append(out, astWrite{Pos: fset.Position(s.Pos()).String(), Func: fd.Name.Name,
								Target: "SetPosition on " + types.ExprString(sel.X),
								Fresh:  (ro != nil && fresh[ro]) || freshExpr[types.ExprString(sel.X)]})
						}
					}
				}
				return true
			})
		}
	}
	return out, nil
}

// ---- static: package-level state written while scripts run ----
// pkgStateWrites lists, for one package of the repository, the writes to package-level variables that happen
// outside package initialisation: assignments, ++/--, stores through an index or field of such a variable,
// and mutating method calls on package-level sync.Map / sync.Pool / atomic values.
func pkgStateWrites(repo, rel string) ([]string, error) {
	fset := token.NewFileSet()
	dir := filepath.Join(repo, rel)
	pkgs, err := parser.ParseDir(fset, dir, func(fi os.FileInfo) bool {
		return !strings.HasSuffix(fi.Name(), "_test.go") && !strings.Contains(fi.Name(), "NotGo112")
	}, 0)
	if err != nil {
		return nil, err
	}
	var files []*ast.File
	for _, p := range pkgs {
		if strings.HasSuffix(p.Name, "_test") {
			continue
		}
		for _, f := range p.Files {
			files = append(files, f)
		}
	}
	sort.Slice(files, func(i, j int) bool {
		return fset.Position(files[i].Pos()).Filename < fset.Position(files[j].Pos()).Filename
	})
	info := &types.Info{Types: map[ast.Expr]types.TypeAndValue{}, Defs: map[*ast.Ident]types.Object{}, Uses: map[*ast.Ident]types.Object{}}
	conf := types.Config{Importer: importer.ForCompiler(fset, "source", nil), Error: func(error) {}}
	pkg, _ := conf.Check("github.com/mattn/anko/"+rel, fset, files, info)
	if pkg == nil {
		return nil, fmt.Errorf("type check of %s failed", rel)
	}
	isPkgVar := func(o types.Object) bool {
		v, ok := o.(*types.Var)
		return ok && !v.IsField() && v.Parent() == pkg.Scope()
	}
	root := func(e ast.Expr) types.Object {
		for {
			switch x := e.(type) {
			case *ast.SelectorExpr:
				if id, ok := x.X.(*ast.Ident); ok {
					if _, isPkg := info.Uses[id].(*types.PkgName); isPkg {
						return nil // a variable of another package
					}
				}
				e = x.X
			case *ast.IndexExpr:
				e = x.X
			case *ast.StarExpr:
				e = x.X
			case *ast.ParenExpr:
				e = x.X
			case *ast.Ident:
				if o := info.Uses[x]; o != nil {
					return o
				}
				return info.Defs[x]
			default:
				return nil
			}
		}
	}
	var out []string
	for _, f := range files {
		for _, d := range f.Decls {
			fd, ok := d.(*ast.FuncDecl)
			if !ok || fd.Body == nil || (fd.Recv == nil && fd.Name.Name == "init") {
				continue
			}
			note := func(e ast.Expr, what string) {
				if o := root(e); o != nil && isPkgVar(o) {
					out = append(out, fmt.Sprintf("%s: %s %s %s", rel, fd.Name.Name, what, o.Name()))
				}
			}
			ast.Inspect(fd.Body, func(n ast.Node) bool {
				switch s := n.(type) {
				case *ast.AssignStmt:
					if s.Tok == token.DEFINE {
						return true
					}
					for _, lhs := range s.Lhs {
						note(lhs, "assigns")
					}
				case *ast.IncDecStmt:
					note(s.X, "incdec")
				case *ast.UnaryExpr:
					// &pkgVar handed on (sync/atomic functions, helper functions that store through the pointer)
					if s.Op == token.AND {
						note(s.X, "takes the address of")
					}
				case *ast.CallExpr:
					if sel, ok := s.Fun.(*ast.SelectorExpr); ok {
						if tv, ok := info.Types[sel.X]; ok && tv.Type != nil {
							ts := tv.Type.String()
							if strings.HasPrefix(strings.TrimPrefix(ts, "*"), "sync.") || strings.HasPrefix(strings.TrimPrefix(ts, "*"), "sync/atomic.") {
								switch sel.Sel.Name {
								case "Store", "LoadOrStore", "LoadAndDelete", "Delete", "Swap", "CompareAndSwap", "Add", "Put", "Range", "Do":
									note(sel.X, "calls "+sel.Sel.Name+" on")
								}
							}
						}
					}
				}
				return true
			})
		}
	}
	sort.Strings(out)
	var uniq []string
	for i, w := range out {
		if i == 0 || w != out[i-1] {
			uniq = append(uniq, w)
		}
	}
	return uniq, nil
}

func c14Main(seed uint64, n int, outDir, repo string) error {
	rnd := NewRand(seed, "c14")
	var results []*c14Result
	parseFail := 0
	directed := []string{
		"x = 1; x++; x += 2; x", "f = func(a) { return a + 1 }; f(1) + f(2)", "a = [1, 2, 3]; a[0] = 9; a",
		"func g() { defer probe(1); return 2 }; g()", "s = import(\"strings\"); s.ToUpper(\"abc\")", "m = {\"a\": 1}; m.b = 2; m",
		"t = 0; for i = 0; i < 5; i++ { t += i }; t", "probe(1)(2)", "func(a, b, c, d, e) { return e }(1, 2, 3, 4, 5)",
		"func v(a...) { return len(a) }; v(1, 2, 3) + v([1, 2]...)", "try { throw \"x\" } catch e { probe(e) }", "1000 + 4095 + 4096 - 1",
		// writes through pointers to computed small integers, booleans, nil and shared literals must stay private to the run
		// in-place stores into containers nested inside literals must not reach the next run
		"grid = [[1, 2], [3, 4]]; grid[0][0] = grid[0][0] + 10; grid[1] += 5; grid", "m = {\"a\": [1]}; m.a[0] = m.a[0] + 1; m.b = [m.a]; m",
		"s = [{\"k\": 1}]; s[0].k = s[0].k + 1; s", "f = func() { return [[0]] }; x = f(); x[0][0] += 1; y = f(); y[0][0] += 1; [x, y]",
		"t = [[], [[]]]; t[0] += 1; t[1][0] += 2; t", "for i = 0; i < 3; i++ { c = [[0]]; c[0][0] += i; probe(c) }",
		"n = 0; n++; p = &n; *p = *p + 1; n", "x = 0; x++; x", "n = 3 - 2; p = &n; *p = 41; [n, 0 + 1, 2 - 1]", "b = (1 == 1); p = &b; *p = false; [b, 1 == 1, true]",
		"s = \"a\" + \"b\"; p = &s; *p = \"zz\"; [s, \"a\" + \"b\"]", "a = [1, 2]; p = &a; *p = [9]; [a, len([1, 2])]", "n = len([7]); p = &n; *p = 5; [n, len([7])]",
		"v = make(struct { A int64 }); v.A = 1; v.A++; q = &v.A; *q = 30; [v.A, 1 + 1]", "x = nil; p = &x; *p = 1; [x, nil]", "m = {\"k\": 1}; m.k++; p = &m; (*p).k = 5; [m.k, 1 + 1]",
	}
	// what a literal is converted into (a byte slice, a rune slice, a typed element) is the run's own: storing into it must not
	// reach the literal in the tree
	directed = append(directed,
		"name = \"hello\"; greeting = name + \", world\"; buf = [][]byte{name}; buf[0][0] = 72; [greeting, name]",
		"b = []byte{}; b = [][]byte{\"abc\"}[0]; b[1] = 90; [\"abc\", b[1]]", "m = map[string][]byte{\"k\": \"xyz\"}; m.k[0] = 65; [m.k[0], \"xyz\"]",
		"a = make([][]byte, 1); a[0] = \"hey\"; a[0][2] = 33; [\"hey\", a[0][2]]", "v = make(struct { B []byte }); v.B = \"abc\"; v.B[0] = 88; [\"abc\", v.B[0]]",
		"c = make(chan []byte, 1); c <- \"msg\"; x = (<- c); x[0] = 77; [\"msg\", x[0]]", "r = [][]rune{\"héllo\"}; r[0][1] = 101; [\"héllo\", r[0][1]]",
		"s = \"lit\"; t = [][]byte{s}; u = [][]byte{s}; t[0][0] = 76; [s, t[0][0], u[0][0]]", "x = [][]byte{\"ab\" + \"cd\"}; x[0][0] = 65; \"ab\" + \"cd\"",
		"l = [\"one\", \"two\"]; b = [][]byte{l[0]}; b[0][0] = 79; [l, \"one\"]", "func mk() { return \"fresh\" }; b = [][]byte{mk()}; b[0][0] = 70; [mk(), b[0][0]]",
		"a = [][]int64{[1, 2]}; a[0][0] = 9; [[1, 2], a]", "a = [][]string{[\"p\", \"q\"]}; a[0][0] = \"z\"; [[\"p\", \"q\"], a]", "k = \"key\"; m = {k: 1}; kb = [][]byte{k}; kb[0][0] = 75; [m, k]")
	add := func(src string) {
		r, ok := c14One(src)
		if !ok {
			parseFail++
			return
		}
		results = append(results, r)
	}
	for _, s := range directed {
		add(s)
	}
	for len(results) < n {
		if rnd.Chance(1, 3) {
			g := newSrcGen(rnd.Fork("g"))
			src := g.program(1 + rnd.Intn(3))
			if strings.Contains(src, "go ") || strings.Contains(src, "<-") || strings.Contains(src, "chan") {
				continue // goroutine-free sources only
			}
			add(src)
		} else {
			g := newSemGen(rnd.Fork("s"), []string{"sem", "c04", "c08", "c09", "c07"}[rnd.Intn(5)])
			add(g.program())
		}
	}
	writes, werr := vmAstWrites(repo)
	var nonFresh []string
	for _, w := range writes {
		if !w.Fresh {
			nonFresh = append(nonFresh, fmt.Sprintf("%s %s in %s", w.Pos, w.Target, w.Func))
		}
	}
	sort.Strings(nonFresh)
	if err := os.MkdirAll(filepath.Join(outDir, "AnkoGen"), 0o755); err != nil {
		return err
	}
	var sb strings.Builder
	sb.WriteString("(* Regenerated on every run by harness/c14.go (go/types over " + repo + "/vm): writes whose target is a field of an\n   ast node that was not built in the same function. *)\nFrom Coq Require Import String List.\nImport ListNotations.\nOpen Scope string_scope.\n")
	var items []string
	for _, w := range nonFresh {
		items = append(items, coqStr(strings.ReplaceAll(w, repo, "")))
	}
	sb.WriteString("Definition non_fresh_ast_writes : list string := " + coqList(items) + ".\n")
	var stateWrites []string
	for _, rel := range []string{"vm", "parser", "core", "env", "ast", "ast/astutil"} {
		ws, serr := pkgStateWrites(repo, rel)
		if serr != nil {
			ws = []string{rel + ": ANALYSIS FAILED " + serr.Error()}
		}
		stateWrites = append(stateWrites, ws...)
	}
	var sitems []string
	for _, w := range stateWrites {
		sitems = append(sitems, coqStr(w))
	}
	sb.WriteString("Definition package_state_writes : list string := " + coqList(sitems) + ".\n")
	fmt.Fprintf(&sb, "Definition fresh_ast_writes_count : nat := %d.\n", len(writes)-len(nonFresh))
	if err := os.WriteFile(filepath.Join(outDir, "AnkoGen", "GenAstWrites.v"), []byte(sb.String()), 0o644); err != nil {
		return err
	}
	f, err := os.Create(filepath.Join(outDir, "results.jsonl"))
	if err != nil {
		return err
	}
	defer f.Close()
	enc := json.NewEncoder(f)
	distinct := map[string]bool{}
	for _, r := range results {
		enc.Encode(r)
		if !strings.HasPrefix(r.Solo, "err|error||") {
			distinct[r.Src] = true
		}
	}
	vproblems, vruns := c14Variants()
	meta := map[string]interface{}{"programs": len(results), "parse_failures": parseFail, "distinct_nontrivial": len(distinct),
		"isolation_problems": c14Isolation(), "ast_writes": writes, "non_fresh_ast_writes": nonFresh,
		"variant_problems": vproblems, "variant_runs": vruns, "variant_programs": len(c14VariantPrograms), "package_state_writes": stateWrites}
	if werr != nil {
		meta["ast_writes_error"] = werr.Error()
	}
	mb, _ := json.MarshalIndent(meta, "", " ")
	return os.WriteFile(filepath.Join(outDir, "meta.json"), mb, 0o644)
}
