package main

// Value-level program families for C05 (arithmetic tower) and C06 (equality):
// complete products over pools of boundary values written as source literals.

import (
	"fmt"
	"strings"
)

var c06Pool = []string{
	"nil", "true", "false",
	"0", "1", "-1", "2", "3", "8", "10", "15", "16", "100000", "1000000", "10000000", "9007199254740992", "9007199254740993", "9223372036854775807",
	"-9223372036854775807",
	"0.0", "-0.0", "1.0", "2.0", "0.5", "100000.0", "1000000.0", "1e6", "1e21", "9007199254740992.0", "9223372036854775807.0",
	"-1.0", "(0.0/0.0)", "(1.0/0.0)",
	`""`, `"0"`, `"1"`, `"-1"`, `"1000000"`, `"1e6"`, `"1.0"`, `"0x10"`, `"010"`, `"-010"`, `"0b11"`, `"0o17"`, `"08"`, `" 1"`, `"1 "`, `"abc"`, `"true"`, `"false"`, `"nil"`,
	`"9007199254740993"`, `"9007199254740992"`, `"0.5"`, `"+1"`, `"1_000"`, `"Inf"`, `"NaN"`, `"1e400"`, `"0x1p4"`, `"1_0"`, `"9223372036854775808"`, `"1e-400"`, `"inf"`, `"Infinity"`, `"16.000000000000000001"`,
	"[]", "[1]", "[1, 2]", "[[1]]", "[1.0]", `["1"]`, "[nil]", "{}", `{"a": 1}`, `{"a": 1.0}`, `{"a": [1]}`, `{"b": 1}`, "[true]", "[0]", `{"a": nil}`, `{"b": nil}`, `{"a": nil, "c": 1}`, `{"b": nil, "c": 1}`, `[nil, 1]`, `[1, nil]`,
}

const c06Prelude = "func sw(x, y) { switch x {\ncase y: return true\n}; return false }\n"

func c06Program(a, b string) string {
	return c06Prelude + fmt.Sprintf("va = %s; vb = %s\n[va == vb, vb == va, va != vb, va in [vb], sw(va, vb), ((va <= vb) && (va >= vb)), vb in [va], sw(vb, va)]", a, b)
}

// containers that share storage: views of one list at the same and at different offsets and lengths,
// beside fresh lists with the same contents - equality is structural, never a matter of identity
var c06Shared = []string{"sa", "sa[:2]", "sa[:0]", "sa[1:]", "sa[0:3]", "sa[:1]", "[1, 2]", "[1, 2, 3]", "[]", "[2, 3]", "[1]", "sm", `{"a": 1}`, "[sa]", "[sa[:2]]", "[[1, 2]]", "sn", "[(0.0/0.0)]", "[sn]"}

func c06Product() []string {
	var out []string
	for _, a := range c06Pool {
		for _, b := range c06Pool {
			out = append(out, c06Program(a, b))
		}
	}
	for _, a := range c06Shared {
		for _, b := range c06Shared {
			out = append(out, "sa = [1, 2, 3]; sm = {\"a\": 1}; sn = [(0.0/0.0)]\n"+c06Program(a, b))
		}
	}
	return out
}

// ---- C05 ----
var c05Ints = []string{"0", "1", "-1", "2", "-2", "3", "7", "63", "64", "65", "4095", "4096", "4097", "2147483647", "-2147483648",
	"4294967296", "9007199254740991", "9007199254740993", "-9007199254740993", "9223372036854775807", "-9223372036854775807",
	"(-9223372036854775807 - 1)", "4611686018427387904", "-4611686018427387904"}
var c05Floats = []string{"0.0", "-0.0", "1.0", "-1.0", "0.5", "1.5", "2.5", "1e300", "-1e300", "5e-324", "9007199254740992.0",
	"9223372036854775808.0", "1e19", "(1.0/0.0)", "(-1.0/0.0)", "(0.0/0.0)", "3.0", "0.1"}
var c05Strs = []string{`""`, `"a"`, `"12"`, `"1.5"`, `"x y"`, `"-3"`, `"0x1f"`, `"1e2"`}
var c05Others = []string{"true", "false", "nil"}

var c05BinOps = []string{"+", "-", "*", "/", "%", "&", "|", "<<", ">>", "<", "<=", ">", ">=", "==", "!="}

func isStrLit(x string) bool { return strings.HasPrefix(x, "\"") }

func bigIntLit(x string) bool {
	n := strings.TrimLeft(x, "(-")
	return len(n) > 2 && n[0] >= '0' && n[0] <= '9' && !strings.ContainsAny(x, ".e/")
}

// c05Shapes: how the two operands reach the operator - the result must not depend on it.
var c05Shapes = []struct{ setup, x, y string }{
	{"va = %s; vb = %s", "va", "vb"},                                      // variables
	{"e = [%s, %s]", "e[0]", "e[1]"},                                       // list elements
	{"e = [[%s], [%s]]", "e[0][0]", "e[1][0]"},                             // nested elements
	{"fa = func() { return %s }; fb = func() { return %s }", "fa()", "fb()"}, // function results
	{"m = {\"a\": %s, \"b\": %s}", "m.a", "m[\"b\"]"},                     // map entries
	{"", "", ""}, // the literals themselves
}

func c05Program(a, b string) string { return c05ProgramShape(a, b, 0) }

func c05ProgramShape(a, b string, shape int) string {
	sh := c05Shapes[shape]
	x, y, setup := sh.x, sh.y, ""
	if sh.setup == "" {
		x, y = "("+a+")", "("+b+")"
	} else {
		setup = fmt.Sprintf(sh.setup, a, b) + "\n"
	}
	var parts []string
	for _, op := range c05BinOps {
		if op == "*" && isStrLit(a) && bigIntLit(b) {
			continue // string repetition by a huge count: an astronomically large allocation (outside C05)
		}
		parts = append(parts, fmt.Sprintf("((%s %s %s) ?? \"E\")", x, op, y))
	}
	parts = append(parts, fmt.Sprintf(`((-%s) ?? "E")`, x), fmt.Sprintf(`((^%s) ?? "E")`, x), fmt.Sprintf(`((!%s) ?? "E")`, x))
	return setup + "[" + strings.Join(parts, ", ") + "]"
}

func c05Product(r *Rand, limit int) []string {
	var pool []string
	pool = append(pool, c05Ints...)
	pool = append(pool, c05Floats...)
	pool = append(pool, c05Strs...)
	pool = append(pool, c05Others...)
	var out []string
	// the cached small-integer band, every value through identity operations of each path
	for lo := -3; lo <= 4098; lo += 600 {
		var es []string
		for v := lo; v < lo+600 && v <= 4098; v++ {
			switch (v + 3) % 6 {
			case 0:
				es = append(es, fmt.Sprintf("(%d + 0)", v))
			case 1:
				es = append(es, fmt.Sprintf("(%d * 1)", v))
			case 2:
				es = append(es, fmt.Sprintf("(0 - (0 - %d))", v))
			case 3:
				es = append(es, fmt.Sprintf("(%d | 0)", v))
			case 4:
				es = append(es, fmt.Sprintf("(-(0 - %d))", v))
			default:
				es = append(es, fmt.Sprintf("len([%d, %d])*0 + %d", v, v, v))
			}
		}
		out = append(out, "["+strings.Join(es, ", ")+"]")
	}
	for _, a := range pool {
		for _, b := range pool {
			out = append(out, c05Program(a, b))
		}
	}
	// the same pairs with the operands arriving as elements, nested elements, function results, map
	// entries or bare literals: every pair under every shape when the budget allows (thorough), one
	// shape for a third of the pairs otherwise
	for _, a := range pool {
		for _, b := range pool {
			if limit > 50000 {
				for sh := 1; sh < len(c05Shapes); sh++ {
					out = append(out, c05ProgramShape(a, b, sh))
				}
			} else if r.Chance(1, 3) {
				out = append(out, c05ProgramShape(a, b, 1+r.Intn(len(c05Shapes)-1)))
			}
		}
	}
	// random expression trees over the same leaves
	var tree func(d int) string
	tree = func(d int) string {
		if d <= 0 || r.Chance(1, 4) {
			leaf := pool[r.Intn(len(pool))]
			switch r.Intn(8) {
			case 0:
				return "[" + leaf + "][0]"
			case 1:
				return "{\"k\": " + leaf + "}.k"
			}
			return leaf
		}
		if r.Chance(1, 8) {
			return []string{"-", "^", "!"}[r.Intn(3)] + "(" + tree(d-1) + ")"
		}
		op := c05BinOps[r.Intn(len(c05BinOps))]
		if op == "*" {
			// no string repetition inside trees: the result sizes multiply
			nums := append(append([]string{}, c05Ints...), c05Floats...)
			return "(" + nums[r.Intn(len(nums))] + " * " + nums[r.Intn(len(nums))] + ")"
		}
		return "(" + tree(d-1) + " " + op + " " + tree(d-1) + ")"
	}
	for len(out) < limit {
		out = append(out, "("+tree(2+r.Intn(3))+") ?? \"E\"")
	}
	return out
}
