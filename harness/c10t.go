package main

// Typed-container histories for the model of coq/Conv/Typed.v (entry c10t): one container of a declared
// type, a sequence of stores / reads / appends / deletes with script values from the model's universe
// (nil, booleans, integers, strings, lists), every step observed through probe().

import (
	"fmt"
	"math"
	"strings"
)

type c10tType struct {
	src string // anko type expression
	sx  string // model encoding
}

var c10tScalars = []c10tType{
	{"int64", `(int "int64" 64)`}, {"int8", `(int "int8" 8)`}, {"uint8", `(uint "uint8" 8)`}, {"int32", `(int "int32" 32)`}, {"uint16", `(uint "uint16" 16)`},
	{"string", "(string)"}, {"bool", "(bool)"}, {"interface", "(iface)"}, {"float64", `(float "float64" 64)`}, {"float32", `(float "float32" 32)`}, {"uint64", `(uint "uint64" 64)`},
}

type c10tVal struct{ src, sx string }

func c10tBytes(s string) string {
	var p []string
	for _, b := range []byte(s) {
		p = append(p, fmt.Sprint(b))
	}
	return "(s" + prefixEach(p) + ")"
}

var c10tVals = []c10tVal{
	{"nil", "(nil)"}, {"true", "(b true)"}, {"false", "(b false)"}, {"1", "(i 1)"}, {"-4", "(i -4)"}, {"65", "(i 65)"}, {"300", "(i 300)"}, {"70000", "(i 70000)"},
	{"-129", "(i -129)"}, {"4294967297", "(i 4294967297)"}, {`"x"`, c10tBytes("x")}, {`"12"`, c10tBytes("12")}, {`""`, c10tBytes("")}, {`"é"`, c10tBytes("é")},
	{"[1, 2]", "(l (i 1) (i 2))"}, {`[1, "x"]`, "(l (i 1) " + c10tBytes("x") + ")"}, {"[]", "(l)"}, {"[[1], nil]", "(l (l (i 1)) (nil))"}, {"[300, nil]", "(l (i 300) (nil))"},
	{`["a", "bc"]`, "(l " + c10tBytes("a") + " " + c10tBytes("bc") + ")"},
	c10tFloat("1.5", 1.5), c10tFloat("-2.75", -2.75), c10tFloat("255.9", 255.9), c10tFloat("0.1", 0.1), c10tFloat("16777217.0", 16777217.0), c10tFloat("1e19", 1e19),
	c10tFloat("-1e19", -1e19), c10tFloat("1e300", 1e300), c10tFloat("4294967296.5", 4294967296.5), {"16777217", "(i 16777217)"}, {"9007199254740993", "(i 9007199254740993)"},
	{"[1.5, 2]", "(l (f " + fmt.Sprint(math.Float64bits(1.5)) + ") (i 2))"},
}

func c10tFloat(src string, f float64) c10tVal {
	return c10tVal{src, fmt.Sprintf("(f %d)", math.Float64bits(f))}
}

type c10tCase struct {
	Src   string `json:"src"`
	Model string `json:"model_in"`
	Kind  string `json:"kind"`
	Got   []string `json:"got"`
}

func c10tGen(r *Rand) c10tCase {
	// mostly values the declared type accepts (two thirds), the rest from the whole pool
	fits := func(t string, v c10tVal) bool {
		switch {
		case t == "interface":
			return true
		case strings.HasPrefix(t, "[]"):
			return strings.HasPrefix(v.src, "[") || v.src == "nil"
		case t == "bool":
			return v.src == "true" || v.src == "false" || v.src == "nil"
		case t == "string":
			return strings.HasPrefix(v.src, "\"") || v.src == "65" || v.src == "300" || v.src == "nil"
		}
		return v.src == "nil" || (v.src[0] >= '0' && v.src[0] <= '9') || v.src[0] == '-' // numbers: integers and floats convert to every numeric type
	}
	pickFor := func(t string) c10tVal {
		for try := 0; try < 8 && !r.Chance(1, 3); try++ {
			if v := c10tVals[r.Intn(len(c10tVals))]; fits(t, v) {
				return v
			}
		}
		return c10tVals[r.Intn(len(c10tVals))]
	}
	elem := func() c10tType {
		t := c10tScalars[r.Intn(len(c10tScalars))]
		if r.Chance(1, 5) && t.src != "int32" { // a string converts to []int32 by decoding UTF-8: not in the model
			return c10tType{"[]" + t.src, "(slice " + t.sx + ")"}
		}
		return t
	}
	var lines, ops []string
	var cont, kind string
	step := func(src, op string) {
		lines = append(lines, "try { "+src+" } catch e { probe(\"E\") }")
		ops = append(ops, op)
	}
	n := 3 + r.Intn(8)
	switch r.Intn(3) {
	case 0: // slice
		t := elem()
		n0 := r.Intn(3)
		kind = "[]" + t.src
		lines = append(lines, fmt.Sprintf("v = make([]%s, %d)", t.src, n0))
		cont = fmt.Sprintf("(slice %s %d)", t.sx, n0)
		ln := n0 // an upper bound on the length, good enough to aim indices around it
		for i := 0; i < n; i++ {
			x := pickFor(t.src)
			ix := []int{0, 0, 1, ln - 1, ln - 1, ln, ln, ln + 1, -1}[r.Intn(9)]
			switch r.Intn(4) {
			case 0, 1:
				step(fmt.Sprintf("v[%d] = %s; probe(v)", ix, x.src), fmt.Sprintf("(store %d %s)", ix, x.sx))
				if ix == ln {
					ln++
				}
			case 2:
				step(fmt.Sprintf("probe(v[%d])", ix), fmt.Sprintf("(read %d)", ix))
			case 3:
				step(fmt.Sprintf("v += [%s]; probe(v)", x.src), fmt.Sprintf("(append %s)", x.sx))
				ln++
			}
		}
	case 1: // map with string or integer keys
		kt := []c10tType{{"string", "(string)"}, {"int64", `(int "int64" 64)`}, {"uint8", `(uint "uint8" 8)`}, {"bool", "(bool)"}}[r.Intn(4)]
		et := elem()
		kind = "map[" + kt.src + "]" + et.src
		lines = append(lines, fmt.Sprintf("v = make(map[%s]%s)", kt.src, et.src))
		cont = fmt.Sprintf("(map %s %s)", kt.sx, et.sx)
		keys := []c10tVal{{`"a"`, c10tBytes("a")}, {`"b"`, c10tBytes("b")}, {"1", "(i 1)"}, {"2", "(i 2)"}, {"257", "(i 257)"}, {"true", "(b true)"}, {"nil", "(nil)"}, {"[1]", "(l (i 1))"}, {`""`, c10tBytes("")}}
		for i := 0; i < n; i++ {
			x, k := pickFor(et.src), keys[r.Intn(len(keys))]
			if !r.Chance(1, 3) { // mostly keys of the declared key type
				switch kt.src {
				case "string":
					k = keys[[]int{0, 1, 8}[r.Intn(3)]]
				case "bool":
					k = keys[5]
				default:
					k = keys[2+r.Intn(3)]
				}
			}
			switch r.Intn(4) {
			case 0, 1:
				step(fmt.Sprintf("v[%s] = %s; probe(v)", k.src, x.src), fmt.Sprintf("(mstore %s %s)", k.sx, x.sx))
			case 2:
				step(fmt.Sprintf("probe(v[%s])", k.src), fmt.Sprintf("(mread %s)", k.sx))
			case 3:
				step(fmt.Sprintf("delete(v, %s); probe(v)", k.src), fmt.Sprintf("(mdel %s)", k.sx))
			}
		}
	default: // struct made with make
		names := []string{"A", "B", "C", "D", "E"}
		var decl, sx []string
		ftypes := map[string]string{}
		nf := 2 + r.Intn(4)
		for i := 0; i < nf; i++ {
			t := elem()
			ftypes[names[i]] = t.src
			decl = append(decl, names[i]+" "+t.src)
			sx = append(sx, fmt.Sprintf("(%s %s)", names[i], t.sx))
		}
		kind = "struct"
		lines = append(lines, "v = make(struct { "+strings.Join(decl, ", ")+" })", "w = v")
		cont = "(struct" + prefixEach(sx) + ")"
		for i := 0; i < n; i++ {
			f := append(names[:nf:nf], "Z")[r.Intn(nf+1)]
			x := pickFor(ftypes[f])
			recv := []string{"v", "w"}[r.Intn(2)]
			if r.Chance(3, 5) {
				step(fmt.Sprintf("%s.%s = %s; probe(v.%s)", recv, f, x.src, f), fmt.Sprintf("(fstore %s %s)", f, x.sx))
			} else {
				step(fmt.Sprintf("probe(%s.%s)", recv, f), fmt.Sprintf("(fread %s)", f))
			}
		}
	}
	src := strings.Join(lines, "\n")
	return c10tCase{Src: src, Model: "(" + cont + " (" + strings.Join(ops, " ") + "))", Kind: kind, Got: c10RunTypedWith(src, true)}
}
