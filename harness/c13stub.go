//go:build !verif_sched

package main

import "fmt"

func c13Main(seed uint64, n int, outDir, repo string) error {
	return fmt.Errorf("c13 needs the scheduler build (go build -overlay ... -tags verif,verif_sched)")
}
