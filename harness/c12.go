package main

// C12: histories of environment API calls, run on the real env package; the
// outputs and state deltas are written as a Coq file that the model checks.

import (
	"encoding/json"
	"fmt"
	"os"
	"path/filepath"
	"reflect"
	"sort"
	"strings"
	"time"

	"github.com/mattn/anko/env"
)

type tokVal struct{ N int }

var tokType = reflect.TypeOf(tokVal{})

type c12Val struct {
	Tok  int  `json:"tok"`
	Addr bool `json:"addr,omitempty"`
	Env  int  `json:"env"` // -1 when a token
}

type c12Op struct {
	K string   `json:"k"`
	E int      `json:"e"`
	S string   `json:"s,omitempty"`
	V *c12Val  `json:"v,omitempty"`
	T int      `json:"t,omitempty"`
	P []string `json:"p,omitempty"`
	X int      `json:"x,omitempty"` // 0 none, k+1 = external lookup table k
	// which of the equivalent Go entry points is used (Define vs DefineValue ...)
	Variant int `json:"variant,omitempty"`
}

type c12Out struct {
	Kind string   `json:"kind"` // none err val ty syms env module bool panic
	Err  string   `json:"err,omitempty"`
	Val  *c12Val  `json:"val,omitempty"`
	Ty   int      `json:"ty,omitempty"`
	Syms []string `json:"syms,omitempty"`
	Env  int      `json:"env,omitempty"`
	Bool bool     `json:"bool,omitempty"`
	Msg  string   `json:"msg,omitempty"`
}

type c12Dump struct {
	Vals  map[string]c12Val `json:"vals"`
	Types map[string]int    `json:"types"`
}

type c12Step struct {
	Op    c12Op           `json:"op"`
	Out   c12Out          `json:"out"`
	Delta map[int]c12Dump `json:"delta"`
}

type c12Case struct {
	Seed   uint64    `json:"seed"`
	Index  int       `json:"index"`
	Hidden []int     `json:"hidden"`
	Steps  []c12Step `json:"steps"`
}

// ---- external lookups (same tables as coq/Env/EnvCases.v) ----
type extTable struct {
	vals  map[string]reflect.Value
	types map[string]reflect.Type
}

func (x *extTable) Get(s string) (reflect.Value, error) {
	if v, ok := x.vals[s]; ok {
		return v, nil
	}
	return reflect.Value{}, fmt.Errorf("ext: no value %s", s)
}
func (x *extTable) Type(s string) (reflect.Type, error) {
	if t, ok := x.types[s]; ok {
		return t, nil
	}
	return nil, fmt.Errorf("ext: no type %s", s)
}

// c12NilEnvTok: a nil *env.Env as a value - has the type of a module and is none (to the model just another token)
const c12NilEnvTok = 777

func tokValue(n int, addr bool) reflect.Value {
	if n == 0 {
		return env.NilValue
	}
	if n == c12NilEnvTok {
		return reflect.ValueOf((*env.Env)(nil))
	}
	if addr {
		p := reflect.New(tokType)
		p.Elem().Set(reflect.ValueOf(tokVal{n}))
		return p.Elem()
	}
	return reflect.ValueOf(tokVal{n})
}

var emptyStructType = reflect.TypeOf(struct{}{})

func tokTypeOf(n int) reflect.Type {
	if n == 99 {
		return nil
	}
	if n >= 100 && n < 100+len(basicTypeList) {
		return basicTypeList[n-100]
	}
	return reflect.ArrayOf(n, emptyStructType)
}

var basicNames = []string{"interface", "bool", "string", "int", "int32", "int64", "uint", "uint32",
	"uint64", "byte", "rune", "float32", "float64"}
var basicTypeList = []reflect.Type{
	reflect.TypeOf((*interface{})(nil)).Elem(), reflect.TypeOf(true), reflect.TypeOf(""),
	reflect.TypeOf(int(0)), reflect.TypeOf(int32(0)), reflect.TypeOf(int64(0)), reflect.TypeOf(uint(0)),
	reflect.TypeOf(uint32(0)), reflect.TypeOf(uint64(0)), reflect.TypeOf(byte(0)), reflect.TypeOf(rune(0)),
	reflect.TypeOf(float32(0)), reflect.TypeOf(float64(0))}

func typeTok(t reflect.Type) int {
	if t == nil {
		return 99
	}
	for i, b := range basicTypeList {
		// byte==uint8 and rune==int32 are aliases: first match wins, like a Go map would
		// not distinguish them either; the model's tokens are made to agree below.
		if t == b {
			return 100 + i
		}
	}
	if t.Kind() == reflect.Array && t.Elem() == emptyStructType {
		return t.Len()
	}
	return -1
}

func mkExt(i int) *extTable {
	switch i {
	case 0:
		return &extTable{
			vals:  map[string]reflect.Value{"a": tokValue(900, false), "x": tokValue(901, true)},
			types: map[string]reflect.Type{"T": tokTypeOf(800), "int64": tokTypeOf(801)}}
	case 1:
		return &extTable{
			vals:  map[string]reflect.Value{"b": tokValue(910, false), "m": tokValue(911, false)},
			types: map[string]reflect.Type{"U": tokTypeOf(810)}}
	}
	return nil
}

// ---- running a history on the implementation ----
type c12Runner struct {
	handles []*env.Env // nil for hidden scopes
	parent  []int
	hidden  []int
	prev    map[int]string
	fixed   bool // NilValue result of failed lookups
}

func (r *c12Runner) idOf(e *env.Env) int {
	for i, h := range r.handles {
		if h == e && h != nil {
			return i
		}
	}
	return -1
}

func (r *c12Runner) canonVal(v reflect.Value) *c12Val {
	if !v.IsValid() {
		return &c12Val{Tok: -2, Env: -1}
	}
	if v.Kind() == reflect.Interface && v.IsNil() {
		// env.NilValue is reflect.New(interface type).Elem(): addressable
		return &c12Val{Tok: 0, Addr: true, Env: -1}
	}
	switch x := v.Interface().(type) {
	case tokVal:
		return &c12Val{Tok: x.N, Addr: v.CanAddr(), Env: -1}
	case *tokVal:
		return &c12Val{Tok: x.N, Addr: true, Env: -1}
	case *interface{}:
		if *x == nil {
			return &c12Val{Tok: 0, Addr: true, Env: -1}
		}
	case *env.Env:
		if x == nil {
			return &c12Val{Tok: c12NilEnvTok, Env: -1}
		}
		return &c12Val{Tok: -1, Env: r.idOf(x)}
	}
	return &c12Val{Tok: -3, Env: -1}
}

func (r *c12Runner) mkVal(v *c12Val) reflect.Value {
	if v.Env >= 0 {
		return reflect.ValueOf(r.handles[v.Env])
	}
	return tokValue(v.Tok, v.Addr)
}

func classifyEnvErr(err error) string {
	switch {
	case err == env.ErrSymbolContainsDot:
		return "ErrDot"
	case strings.HasPrefix(err.Error(), "undefined symbol"):
		return "ErrUndefSym"
	case strings.HasPrefix(err.Error(), "undefined type"):
		return "ErrUndefType"
	case strings.HasPrefix(err.Error(), "no namespace called"):
		return "ErrNoNamespace"
	case err.Error() == "unaddressable":
		return "ErrUnaddressable"
	}
	return "ErrOther:" + err.Error()
}

func (r *c12Runner) alloc(e *env.Env, parent int) int {
	r.handles = append(r.handles, e)
	r.parent = append(r.parent, parent)
	return len(r.handles) - 1
}

func (r *c12Runner) chainLen(i int) int {
	n := 0
	for i >= 0 {
		n++
		i = r.parent[i]
	}
	return n
}

func (r *c12Runner) apply(op c12Op) (out c12Out) {
	defer func() {
		if p := recover(); p != nil {
			out = c12Out{Kind: "panic", Msg: fmt.Sprint(p)}
		}
	}()
	errOut := func(err error) c12Out {
		if err != nil {
			return c12Out{Kind: "err", Err: classifyEnvErr(err)}
		}
		return c12Out{Kind: "none"}
	}
	var e *env.Env
	if op.K != "NewRoot" {
		e = r.handles[op.E]
	}
	switch op.K {
	case "NewRoot":
		return c12Out{Kind: "env", Env: r.alloc(env.NewEnv(), -1)}
	case "NewEnv":
		return c12Out{Kind: "env", Env: r.alloc(e.NewEnv(), op.E)}
	case "NewModule":
		m, err := e.NewModule(op.S)
		id := r.alloc(m, op.E)
		o := c12Out{Kind: "module", Env: id}
		if err != nil {
			o.Err = classifyEnvErr(err)
		}
		return o
	case "SetExt":
		if op.X == 0 {
			e.SetExternalLookup(nil)
		} else {
			e.SetExternalLookup(mkExt(op.X - 1))
		}
		return c12Out{Kind: "none"}
	case "Define":
		if op.Variant == 1 && op.V.Env < 0 && (!op.V.Addr || op.V.Tok == 0) {
			if op.V.Tok == 0 {
				return errOut(e.Define(op.S, nil))
			}
			return errOut(e.Define(op.S, tokVal{op.V.Tok}))
		}
		return errOut(e.DefineValue(op.S, r.mkVal(op.V)))
	case "DefineGlobal":
		if op.Variant == 1 && op.V.Env < 0 && (!op.V.Addr || op.V.Tok == 0) {
			if op.V.Tok == 0 {
				return errOut(e.DefineGlobal(op.S, nil))
			}
			return errOut(e.DefineGlobal(op.S, tokVal{op.V.Tok}))
		}
		return errOut(e.DefineGlobalValue(op.S, r.mkVal(op.V)))
	case "Set":
		if op.Variant == 1 && op.V.Env < 0 && (!op.V.Addr || op.V.Tok == 0) {
			if op.V.Tok == 0 {
				return errOut(e.Set(op.S, nil))
			}
			return errOut(e.Set(op.S, tokVal{op.V.Tok}))
		}
		return errOut(e.SetValue(op.S, r.mkVal(op.V)))
	case "Get":
		if op.Variant == 1 {
			// Get = GetValue(...).Interface(); the error case returns a nil interface
			x, err := e.Get(op.S)
			if err != nil {
				return errOut(err)
			}
			if x == nil {
				return c12Out{Kind: "val", Val: &c12Val{Tok: 0, Addr: true, Env: -1}}
			}
			v := r.canonVal(reflect.ValueOf(x))
			// addressability is not visible through an interface{}; take it from GetValue
			if rv, err2 := e.GetValue(op.S); err2 == nil && rv.IsValid() && v.Env < 0 && v.Tok > 0 {
				v.Addr = rv.CanAddr()
			}
			return c12Out{Kind: "val", Val: v, Msg: "iface"}
		}
		v, err := e.GetValue(op.S)
		if err != nil {
			return errOut(err)
		}
		return c12Out{Kind: "val", Val: r.canonVal(v)}
	case "Addr":
		v, err := e.Addr(op.S)
		if err != nil {
			return errOut(err)
		}
		return c12Out{Kind: "val", Val: r.canonVal(v)}
	case "Symbols":
		s := e.GetValueSymbols()
		sort.Strings(s)
		return c12Out{Kind: "syms", Syms: s}
	case "Delete":
		e.Delete(op.S)
		return c12Out{Kind: "none"}
	case "DeleteGlobal":
		e.DeleteGlobal(op.S)
		return c12Out{Kind: "none"}
	case "DefineType":
		if op.Variant == 1 {
			// DefineType accepts a reflect.Type or a value whose type is meant
			return errOut(e.DefineType(op.S, tokTypeOf(op.T)))
		}
		return errOut(e.DefineReflectType(op.S, tokTypeOf(op.T)))
	case "DefineGlobalType":
		if op.Variant == 1 {
			return errOut(e.DefineGlobalType(op.S, tokTypeOf(op.T)))
		}
		return errOut(e.DefineGlobalReflectType(op.S, tokTypeOf(op.T)))
	case "Type":
		t, err := e.Type(op.S)
		if err != nil {
			return errOut(err)
		}
		return c12Out{Kind: "ty", Ty: typeTok(t)}
	case "TypeSymbols":
		s := e.GetTypeSymbols()
		sort.Strings(s)
		return c12Out{Kind: "syms", Syms: s}
	case "Path":
		m, err := e.GetEnvFromPath(op.P)
		if err != nil {
			return errOut(err)
		}
		return c12Out{Kind: "env", Env: r.idOf(m)}
	case "Copy":
		c := e.Copy()
		return c12Out{Kind: "env", Env: r.alloc(c, r.parent[op.E])}
	case "DeepCopy":
		c := e.DeepCopy()
		// the copies of the ancestors exist but no handle to them is returned; the model
		// numbers them before the copy itself (root copy first)
		n := r.chainLen(op.E)
		first := len(r.handles)
		for i := 0; i < n-1; i++ {
			par := first + i - 1
			if i == 0 {
				par = -1
			}
			h := r.alloc(nil, par)
			r.hidden = append(r.hidden, h)
		}
		par := -1
		if n > 1 {
			par = first + n - 2
		}
		return c12Out{Kind: "env", Env: r.alloc(c, par)}
	case "HasParent":
		return c12Out{Kind: "bool", Bool: strings.HasPrefix(e.String(), "Has parent")}
	}
	panic("unknown op " + op.K)
}

func (r *c12Runner) dump(i int) c12Dump {
	e := r.handles[i]
	d := c12Dump{Vals: map[string]c12Val{}, Types: map[string]int{}}
	for _, s := range e.GetValueSymbols() {
		v, err := e.GetValue(s)
		if err != nil {
			d.Vals[s] = c12Val{Tok: -9, Env: -1}
			continue
		}
		d.Vals[s] = *r.canonVal(v)
	}
	for _, s := range e.GetTypeSymbols() {
		t, err := e.Type(s)
		if err != nil {
			d.Types[s] = -9
			continue
		}
		d.Types[s] = typeTok(t)
	}
	return d
}

func (r *c12Runner) deltas() map[int]c12Dump {
	out := map[int]c12Dump{}
	for i, h := range r.handles {
		if h == nil {
			continue
		}
		d := r.dump(i)
		b, _ := json.Marshal(d)
		if old, ok := r.prev[i]; !ok || old != string(b) {
			if ok || len(d.Vals)+len(d.Types) > 0 {
				out[i] = d
			}
			r.prev[i] = string(b)
		}
	}
	return out
}

func c12Run(ops []c12Op) ([]c12Step, []int) {
	r := &c12Runner{prev: map[int]string{}}
	steps := make([]c12Step, 0, len(ops))
	for _, op := range ops {
		out := r.apply(op)
		st := c12Step{Op: op, Out: out}
		if out.Kind == "panic" {
			st.Delta = map[int]c12Dump{}
			steps = append(steps, st)
			break // a panic may leave a lock held; the history ends here
		}
		st.Delta = r.deltas()
		steps = append(steps, st)
	}
	return steps, r.hidden
}

// ---- generation ----
var c12Names = []string{"a", "b", "m", "x", "a.b", "", "T", "int64", "U", "n", ".a", ".", "a.", "..a", "a..b"}

func c12Gen(rnd *Rand, n int) []c12Op {
	var ops []c12Op
	// shadow bookkeeping so that targets are valid and modules are reachable
	type sh struct {
		visible bool
		parent  int
	}
	var scopes []sh
	visible := func() []int {
		var v []int
		for i, s := range scopes {
			if s.visible {
				v = append(v, i)
			}
		}
		return v
	}
	pickScope := func() int {
		v := visible()
		if rnd.Chance(1, 2) && len(v) > 3 {
			return v[len(v)-1-rnd.Intn(3)]
		}
		return v[rnd.Intn(len(v))]
	}
	name := func() string {
		w := []int{18, 18, 18, 9, 3, 3, 6, 6, 3, 6, 1, 1, 1, 1, 1}
		return c12Names[rnd.Pick(w)]
	}
	val := func() *c12Val {
		if rnd.Chance(1, 5) {
			return &c12Val{Tok: -1, Env: pickScope()}
		}
		if rnd.Chance(1, 12) {
			return &c12Val{Tok: 0, Addr: true, Env: -1}
		}
		if rnd.Chance(1, 25) {
			return &c12Val{Tok: c12NilEnvTok, Env: -1}
		}
		return &c12Val{Tok: 1 + rnd.Intn(6), Addr: rnd.Chance(1, 4), Env: -1}
	}
	chainLen := func(i int) int {
		n := 0
		for i >= 0 {
			n++
			i = scopes[i].parent
		}
		return n
	}
	ops = append(ops, c12Op{K: "NewRoot"})
	scopes = append(scopes, sh{true, -1})
	kinds := []string{"NewRoot", "NewEnv", "NewModule", "SetExt", "Define", "DefineGlobal", "Set", "Get", "Addr",
		"Symbols", "Delete", "DeleteGlobal", "DefineType", "DefineGlobalType", "Type", "TypeSymbols", "Path",
		"Copy", "DeepCopy", "HasParent"}
	weights := []int{1, 8, 6, 3, 14, 4, 10, 14, 3, 2, 5, 5, 5, 2, 7, 1, 8, 3, 3, 1}
	for len(ops) < n {
		k := kinds[rnd.Pick(weights)]
		if len(scopes) > 40 && (k == "DeepCopy" || k == "NewEnv" || k == "NewModule" || k == "Copy" || k == "NewRoot") {
			continue
		}
		op := c12Op{K: k, Variant: rnd.Intn(2)}
		if k != "NewRoot" {
			op.E = pickScope()
		}
		switch k {
		case "NewRoot":
			scopes = append(scopes, sh{true, -1})
		case "NewEnv":
			scopes = append(scopes, sh{true, op.E})
		case "NewModule":
			op.S = name()
			scopes = append(scopes, sh{true, op.E})
		case "SetExt":
			op.X = rnd.Intn(3)
		case "Define", "DefineGlobal", "Set":
			op.S = name()
			op.V = val()
		case "Get", "Addr", "Delete", "DeleteGlobal", "Type":
			op.S = name()
		case "DefineType", "DefineGlobalType":
			op.S = name()
			op.T = []int{1, 2, 3, 99, 105, 102}[rnd.Intn(6)]
		case "Path":
			l := rnd.Intn(4)
			for i := 0; i < l; i++ {
				op.P = append(op.P, name())
			}
		case "Copy":
			scopes = append(scopes, sh{true, scopes[op.E].parent})
		case "DeepCopy":
			c := chainLen(op.E)
			base := len(scopes)
			for i := 0; i < c; i++ {
				par := base + i - 1
				if i == 0 {
					par = -1
				}
				scopes = append(scopes, sh{i == c-1, par})
			}
		}
		ops = append(ops, op)
	}
	return ops
}

// ---- S-expression emission (decoded by coq/Env/EnvDriver.v) ----
func c12SxVal(v *c12Val) string {
	if v.Env >= 0 {
		return sxList("env", sxInt(v.Env))
	}
	if v.Tok < 0 {
		// not a value of the model's universe: can never compare equal
		return sxList("tok", sxInt(4000-v.Tok), "false")
	}
	return sxList("tok", sxInt(v.Tok), sxBool(v.Addr))
}

func c12SxOp(op c12Op) string {
	switch op.K {
	case "NewRoot":
		return "(NewRoot)"
	case "NewEnv", "Symbols", "TypeSymbols", "Copy", "DeepCopy", "HasParent":
		return sxList(op.K, sxInt(op.E))
	case "NewModule", "Get", "Addr", "Delete", "DeleteGlobal", "Type":
		return sxList(op.K, sxInt(op.E), sxStr(op.S))
	case "SetExt":
		return sxList(op.K, sxInt(op.E), sxOptInt(op.X-1))
	case "Define", "DefineGlobal", "Set":
		return sxList(op.K, sxInt(op.E), sxStr(op.S), c12SxVal(op.V))
	case "DefineType", "DefineGlobalType":
		return sxList(op.K, sxInt(op.E), sxStr(op.S), sxInt(op.T))
	case "Path":
		var p []string
		for _, s := range op.P {
			p = append(p, sxStr(s))
		}
		return sxList(op.K, sxInt(op.E), sxList(p...))
	}
	panic("c12SxOp " + op.K)
}

func c12SxOut(o c12Out) string {
	switch o.Kind {
	case "none":
		return "(none)"
	case "err":
		if strings.HasPrefix(o.Err, "ErrOther") {
			return "(bad)"
		}
		return sxList("err", o.Err)
	case "val":
		return sxList("val", c12SxVal(o.Val))
	case "ty":
		return sxList("ty", sxInt(o.Ty))
	case "syms":
		p := []string{"syms"}
		for _, s := range o.Syms {
			p = append(p, sxStr(s))
		}
		return sxList(p...)
	case "env":
		if o.Env < 0 {
			return "(bad)"
		}
		return sxList("env", sxInt(o.Env))
	case "module":
		if o.Err != "" {
			return sxList("module", sxInt(o.Env), sxList(o.Err))
		}
		return sxList("module", sxInt(o.Env), "()")
	case "bool":
		return sxList("bool", sxBool(o.Bool))
	case "panic":
		return "(panic)"
	}
	panic("c12SxOut " + o.Kind)
}

func c12SxDump(i int, d c12Dump) string {
	var ks []string
	for k := range d.Vals {
		ks = append(ks, k)
	}
	sort.Strings(ks)
	var vs []string
	for _, k := range ks {
		v := d.Vals[k]
		vs = append(vs, sxList(sxStr(k), c12SxVal(&v)))
	}
	ks = nil
	for k := range d.Types {
		ks = append(ks, k)
	}
	sort.Strings(ks)
	var ts []string
	for _, k := range ks {
		ts = append(ts, sxList(sxStr(k), sxInt(d.Types[k])))
	}
	return sxList(sxInt(i), sxList(vs...), sxList(ts...))
}

func c12SxCase(c c12Case) string {
	var hid []string
	for _, h := range c.Hidden {
		hid = append(hid, sxInt(h))
	}
	var steps []string
	for _, s := range c.Steps {
		var ids []int
		for i := range s.Delta {
			ids = append(ids, i)
		}
		sort.Ints(ids)
		var ds []string
		for _, i := range ids {
			ds = append(ds, c12SxDump(i, s.Delta[i]))
		}
		steps = append(steps, sxList(c12SxOp(s.Op), c12SxOut(s.Out), sxList(ds...)))
	}
	return "c12 " + sxList(sxList(hid...), sxList(steps...))
}

// directed histories that always run first (minimised earlier failures and
// the shapes the property's text names)
func c12Directed() [][]c12Op {
	tok := func(n int) *c12Val { return &c12Val{Tok: n, Env: -1} }
	return [][]c12Op{
		// a path element naming a non-module value in an inner scope (make(a.b) from a script)
		{{K: "NewRoot"}, {K: "NewEnv", E: 0}, {K: "Define", E: 1, S: "a", V: tok(1)}, {K: "Path", E: 1, P: []string{"a", "b"}}},
		{{K: "NewRoot"}, {K: "NewModule", E: 0, S: "a"}, {K: "NewEnv", E: 0}, {K: "Define", E: 2, S: "a", V: tok(1)},
			{K: "Path", E: 2, P: []string{"a"}}},
		{{K: "NewRoot"}, {K: "NewModule", E: 0, S: "a.b"}, {K: "Symbols", E: 0}},
		// names containing '.' are rejected wherever the dot stands, by every defining call, and nothing changes
		{{K: "NewRoot"}, {K: "NewEnv", E: 0}, {K: "Define", E: 1, S: ".a", V: tok(1)}, {K: "Define", E: 1, S: ".", V: tok(2)}, {K: "Define", E: 1, S: "a.", V: tok(3)},
			{K: "DefineGlobal", E: 1, S: "..a", V: tok(4)}, {K: "NewModule", E: 1, S: ".m"}, {K: "DefineType", E: 1, S: ".T", T: 2}, {K: "DefineGlobalType", E: 1, S: "T.", T: 3},
			{K: "Symbols", E: 1}, {K: "Symbols", E: 0}, {K: "TypeSymbols", E: 1}, {K: "Get", E: 1, S: ".a"}, {K: "Path", E: 1, P: []string{".m"}}},
		// a binding that holds a nil *env.Env has the type of a module and is none: a path through it is an error
		{{K: "NewRoot"}, {K: "Define", E: 0, S: "m", V: tok(c12NilEnvTok)}, {K: "Path", E: 0, P: []string{"m"}}, {K: "Path", E: 0, P: []string{"m", "a"}}, {K: "Get", E: 0, S: "m"}},
		{{K: "NewRoot"}, {K: "NewModule", E: 0, S: "a"}, {K: "Define", E: 1, S: "m", V: tok(c12NilEnvTok)}, {K: "Path", E: 0, P: []string{"a", "m"}},
			{K: "Path", E: 0, P: []string{"a", "m", "b"}}, {K: "NewEnv", E: 0}, {K: "Define", E: 2, S: "a", V: tok(c12NilEnvTok)}, {K: "Path", E: 2, P: []string{"a", "m"}}},
		{{K: "NewRoot"}, {K: "Define", E: 0, S: "a", V: tok(1)}, {K: "Copy", E: 0}, {K: "Set", E: 1, S: "a", V: tok(2)},
			{K: "Get", E: 0, S: "a"}, {K: "Delete", E: 0, S: "a"}, {K: "Get", E: 1, S: "a"}},
		{{K: "NewRoot"}, {K: "Define", E: 0, S: "a", V: tok(1)}, {K: "NewEnv", E: 0}, {K: "DeepCopy", E: 1},
			{K: "Set", E: 3, S: "a", V: tok(2)}, {K: "Get", E: 1, S: "a"}, {K: "Get", E: 3, S: "a"},
			{K: "DefineGlobal", E: 1, S: "b", V: tok(3)}, {K: "Get", E: 3, S: "b"}},
		{{K: "NewRoot"}, {K: "NewEnv", E: 0}, {K: "Define", E: 0, S: "a", V: tok(1)}, {K: "Define", E: 1, S: "a", V: tok(2)},
			{K: "DeleteGlobal", E: 1, S: "a"}, {K: "Get", E: 1, S: "a"}, {K: "DeleteGlobal", E: 1, S: "a"}, {K: "Get", E: 1, S: "a"}},
		{{K: "NewRoot"}, {K: "SetExt", E: 0, X: 1}, {K: "Get", E: 0, S: "a"}, {K: "Type", E: 0, S: "int64"},
			{K: "NewEnv", E: 0}, {K: "Type", E: 1, S: "int64"}, {K: "Type", E: 1, S: "float64"}, {K: "Addr", E: 1, S: "x"},
			{K: "Addr", E: 1, S: "a"}, {K: "Set", E: 1, S: "a", V: tok(4)}},
	}
}

// c12InvalidRequests: requests outside the model's value universe (the zero reflect.Value as the value to bind), judged on the
// implementation alone by the property's own rule: an error, every scope unchanged, never a panic - now or at a later read
// c12BadLookup answers every name with the same non-value and no error
type c12BadLookup struct{ v reflect.Value }

func (l c12BadLookup) Get(string) (reflect.Value, error) { return l.v, nil }
func (l c12BadLookup) Type(string) (reflect.Type, error) { return nil, fmt.Errorf("no such type") }

func c12InvalidRequests() []map[string]interface{} {
	var out []map[string]interface{}
	bad := func(why string) { out = append(out, map[string]interface{}{"case": -1, "why": why}) }
	guard := func(what string, f func()) {
		defer func() {
			if p := recover(); p != nil {
				bad(what + " panicked: " + fmt.Sprint(p))
			}
		}()
		f()
	}
	for _, inv := range []struct {
		name string
		v    reflect.Value
	}{{"the zero reflect.Value", reflect.Value{}}, {"a reflect.Value taken from an unexported struct field", reflect.ValueOf(&struct{ x int }{x: 3}).Elem().Field(0)}} {
		inv := inv
		for _, how := range []string{"DefineValue", "DefineGlobalValue", "SetValue", "SetValue through a child"} {
			how := how
			guard(how+" with "+inv.name, func() {
				root := env.NewEnv()
				root.Define("a", int64(1))
				child := root.NewEnv()
				child.Define("b", int64(2))
				var err error
				switch how {
				case "DefineValue":
					err = child.DefineValue("z", inv.v)
				case "DefineGlobalValue":
					err = child.DefineGlobalValue("z", inv.v)
				case "SetValue":
					err = child.SetValue("b", inv.v)
				default:
					err = child.SetValue("a", inv.v)
				}
				if err == nil {
					bad(how + " accepts " + inv.name + " without an error")
				}
				for _, e := range []*env.Env{root, child} {
					for _, sym := range []string{"a", "b", "z"} {
						e.Get(sym)
						e.GetValue(sym)
						e.Addr(sym)
						e.GetEnvFromPath([]string{sym})
					}
					_ = e.String()
					e.Copy()
					e.DeepCopy()
					e.GetValueSymbols()
				}
				if v, _ := child.Get("a"); v != int64(1) {
					bad(how + " with " + inv.name + " changed the binding of a: " + fmt.Sprint(v))
				}
				if v, _ := child.Get("b"); v != int64(2) {
					bad(how + " with " + inv.name + " changed the binding of b: " + fmt.Sprint(v))
				}
				if _, err := child.Get("z"); err == nil {
					bad(how + " with " + inv.name + " created a binding")
				}
			})
		}
	}
	// an external lookup that answers with something that is no value: the name counts as not found there, nothing panics
	for _, inv := range []struct {
		name string
		v    reflect.Value
	}{{"the zero reflect.Value", reflect.Value{}}, {"a reflect.Value taken from an unexported struct field", reflect.ValueOf(&struct{ x int }{x: 3}).Elem().Field(0)}} {
		inv := inv
		guard("an external lookup answering with "+inv.name, func() {
			root := env.NewEnv()
			root.Define("a", int64(1))
			child := root.NewEnv()
			child.SetExternalLookup(c12BadLookup{inv.v})
			for _, sym := range []string{"a", "q"} {
				child.Get(sym)
				child.GetValue(sym)
				child.Addr(sym)
				child.GetEnvFromPath([]string{sym})
			}
			_ = child.String()
			child.Copy()
			child.DeepCopy()
			if v, err := child.Get("a"); err != nil || v != int64(1) {
				bad("behind an external lookup answering with " + inv.name + " the parent's binding of a reads " + fmt.Sprint(v, err))
			}
			if _, err := child.Get("q"); err == nil {
				bad("an external lookup answering with " + inv.name + " makes an unbound name defined")
			}
			cell := int64(7)
			root.DefineValue("cell", reflect.ValueOf(&cell).Elem())
			if p, err := child.Addr("cell"); err != nil || p.Kind() != reflect.Ptr || p.Elem().Int() != 7 {
				bad("behind an external lookup answering with " + inv.name + " Addr does not reach the parent's addressable binding: " + fmt.Sprint(err))
			}
		})
	}
	// a binding whose value reflect only lets one look at (taken from an unexported struct field): copying the scope neither
	// panics nor leaves its lock held
	for _, deep := range []bool{false, true} {
		deep := deep
		guard(fmt.Sprintf("copy of a scope holding a value from an unexported field (deep=%v)", deep), func() {
			e := env.NewEnv().NewEnv()
			e.DefineValue("f", reflect.ValueOf(&struct{ x int }{x: 3}).Elem().Field(0))
			func() {
				defer func() {
					if p := recover(); p != nil {
						bad(fmt.Sprintf("copying a scope that holds a value taken from an unexported field panics (deep=%v): %v", deep, p))
					}
				}()
				if deep {
					e.DeepCopy()
				} else {
					e.Copy()
				}
			}()
			done := make(chan struct{})
			go func() { e.Define("y", int64(1)); close(done) }()
			select {
			case <-done:
			case <-time.After(5 * time.Second):
				bad(fmt.Sprintf("after a copy that failed, Define on the scope never returns: its lock is still held (deep=%v)", deep))
			}
		})
	}
	// Copy / DeepCopy yield independent snapshots: also for bindings that are addressable cells (Define(name, nil) makes one),
	// where "a later change" can be a store through the pointer Addr hands out
	for _, deep := range []bool{false, true} {
		deep := deep
		guard(fmt.Sprintf("a store through Addr after a copy (deep=%v)", deep), func() {
			root := env.NewEnv()
			root.Define("up", nil)
			e := root.NewEnv()
			e.Define("x", nil)
			cell := reflect.New(tokType).Elem()
			cell.Set(reflect.ValueOf(tokVal{1}))
			e.DefineValue("y", cell)
			var c *env.Env
			if deep {
				c = e.DeepCopy()
			} else {
				c = e.Copy()
			}
			names := []string{"x", "y"}
			if deep {
				names = append(names, "up")
			}
			for _, side := range []string{"copy", "original"} {
				from, to := c, e
				if side == "original" {
					from, to = e, c
				}
				for _, name := range names {
					before, _ := to.Get(name)
					p, err := from.Addr(name)
					if err != nil {
						bad("Addr of an addressable binding fails after a copy: " + err.Error())
						continue
					}
					if name == "y" {
						p.Elem().Set(reflect.ValueOf(tokVal{2}))
					} else {
						p.Elem().Set(reflect.ValueOf(int64(5)))
					}
					if after, _ := to.Get(name); fmt.Sprint(after) != fmt.Sprint(before) {
						bad(fmt.Sprintf("a store through Addr(%q) on the %s shows on the other side of a copy (deep=%v): %v, before %v", name, side, deep, after, before))
					}
				}
			}
		})
	}
	return out
}

func c12Main(seed uint64, n int, outDir string, replay string) error {
	var cases []c12Case
	stats := map[string]int{}
	implViol := []map[string]interface{}{}
	addCase := func(ops []c12Op, idx int) {
		steps, hidden := c12Run(ops)
		c := c12Case{Seed: seed, Index: idx, Hidden: hidden, Steps: steps}
		if hidden == nil {
			c.Hidden = []int{}
		}
		for _, s := range steps {
			stats["op:"+s.Op.K]++
			stats["out:"+s.Out.Kind]++
			if s.Out.Kind == "err" {
				stats["err:"+s.Out.Err]++
			}
			if s.Out.Kind == "panic" {
				implViol = append(implViol, map[string]interface{}{"case": idx, "why": "env API call panicked: " + s.Out.Msg, "op": s.Op})
			}
		}
		stats["len:"+fmt.Sprint((len(steps)+9)/10*10)]++
		cases = append(cases, c)
	}
	if replay != "" {
		b, err := os.ReadFile(replay)
		if err != nil {
			return err
		}
		var rc struct {
			Ops []c12Op `json:"ops"`
		}
		if err := json.Unmarshal(b, &rc); err != nil {
			return err
		}
		addCase(rc.Ops, 0)
	} else {
		idx := 0
		for _, ops := range c12Directed() {
			addCase(ops, idx)
			idx++
		}
		rnd := NewRand(seed, "c12")
		for ; idx < n; idx++ {
			addCase(c12Gen(rnd.Fork("case"), 1+rnd.Intn(60)), idx)
		}
	}
	{
		var sb strings.Builder
		for _, c := range cases {
			sb.WriteString(c12SxCase(c))
			sb.WriteByte('\n')
		}
		if err := os.WriteFile(filepath.Join(outDir, "cases.sx"), []byte(sb.String()), 0o644); err != nil {
			return err
		}
	}
	// distinct non-trivial: distinct op sequences that have >= 2 scopes and >= 1 error or state change
	seen := map[string]bool{}
	nontrivial := 0
	for _, c := range cases {
		var ops []c12Op
		changes := 0
		for _, s := range c.Steps {
			ops = append(ops, s.Op)
			changes += len(s.Delta)
		}
		b, _ := json.Marshal(ops)
		if !seen[string(b)] && changes >= 2 && len(c.Steps) >= 3 {
			nontrivial++
		}
		seen[string(b)] = true
	}
	implViol = append(implViol, c12InvalidRequests()...)
	meta := map[string]interface{}{
		"cases": len(cases), "stats": stats,
		"distinct_nontrivial": nontrivial, "impl_violations": implViol,
	}
	mb, _ := json.MarshalIndent(meta, "", " ")
	if err := os.WriteFile(filepath.Join(outDir, "meta.json"), mb, 0o644); err != nil {
		return err
	}
	f, err := os.Create(filepath.Join(outDir, "cases.jsonl"))
	if err != nil {
		return err
	}
	defer f.Close()
	enc := json.NewEncoder(f)
	for _, c := range cases {
		if err := enc.Encode(c); err != nil {
			return err
		}
	}
	return nil
}
