package main

// C13, race part (built with -race, no scheduler): goroutines hammer one shared scope with the whole
// operation mix; the race detector reports any unsynchronised access inside package env.

import (
	"fmt"
	"os"
	"reflect"
	"runtime"
	"sync"
	"time"

	"github.com/mattn/anko/env"
)

func c13Race(seed uint64, n int) error {
	rnd := NewRand(seed, "c13race")
	for round := 0; round < n; round++ {
		root := env.NewEnv()
		root.DefineValue("p", tokValue(1, false))
		child := root.NewEnv()
		envs := []*env.Env{root, child}
		nt := 3 + rnd.Intn(3)
		var wg sync.WaitGroup
		for t := 0; t < nt; t++ {
			next := 100 * (t + 1)
			var ops []c12Op
			r := rnd.Fork("t")
			for j := 0; j < 40; j++ {
				ops = append(ops, c13RaceOp(r, &next))
			}
			wg.Add(1)
			go func() {
				defer wg.Done()
				for _, op := range ops {
					c13RaceApply(envs, op)
				}
			}()
		}
		done := make(chan struct{})
		go func() { wg.Wait(); close(done) }()
		select {
		case <-done:
		case <-time.After(20 * time.Second):
			// no operation of package env waits for anything but the scope's lock: a round that does not
			// end is a deadlock among the environment operations themselves
			buf := make([]byte, 1<<16)
			buf = buf[:runtime.Stack(buf, true)]
			fmt.Printf("DEADLOCK round=%d threads=%d\n%s\n", round, nt, buf)
			os.Exit(67)
		}
	}
	return nil
}

// c13RaceExt: an external lookup that knows nothing (installing and removing it is the operation of interest)
type c13RaceExt struct{}

func (c13RaceExt) Get(string) (reflect.Value, error) { return reflect.Value{}, fmt.Errorf("unknown") }
func (c13RaceExt) Type(string) (reflect.Type, error) { return nil, fmt.Errorf("unknown") }

func c13RaceOp(rnd *Rand, next *int) c12Op {
	keys := []string{"a", "b", "p"}
	k := keys[rnd.Intn(3)]
	*next++
	v := &c12Val{Tok: *next, Env: -1}
	kinds := []string{"Define", "Set", "Get", "Delete", "DeleteGlobal", "Symbols", "DefineType", "Type", "TypeSymbols", "Snap", "String", "Addr", "DeepCopy", "Path", "SetExt", "SetExt", "CopyWrite", "CopyWrite"}
	return c12Op{K: kinds[rnd.Intn(len(kinds))], E: 1, S: k, V: v, T: 1 + *next%7}
}

func c13RaceApply(envs []*env.Env, op c12Op) {
	defer func() { recover() }()
	e := envs[op.E]
	switch op.K {
	case "Define":
		e.DefineValue(op.S, tokValue(op.V.Tok, false))
	case "Set":
		e.SetValue(op.S, tokValue(op.V.Tok, false))
	case "Get":
		e.GetValue(op.S)
	case "Delete":
		e.Delete(op.S)
	case "DeleteGlobal":
		e.DeleteGlobal(op.S)
	case "Symbols":
		e.GetValueSymbols()
	case "TypeSymbols":
		e.GetTypeSymbols()
	case "DefineType":
		e.DefineReflectType("T"+op.S, tokTypeOf(op.T))
	case "Type":
		e.Type("T" + op.S)
	case "Snap":
		e.Copy()
	case "String":
		_ = e.String()
	case "Addr":
		e.Addr(op.S)
	case "DeepCopy":
		e.DeepCopy()
	case "Path":
		e.GetEnvFromPath([]string{op.S})
	case "CopyWrite": // a copy is the caller's own: writing it races with nothing
		c := e.Copy()
		c.DefineValue("cw", tokValue(op.V.Tok, false))
		c.Delete("cw")
	case "SetExt":
		if op.T%2 == 0 {
			e.SetExternalLookup(nil)
		} else {
			e.SetExternalLookup(c13RaceExt{})
		}
	}
}
