package main

// C10: container histories.  A history is a sequence of steps over a few variables; every step has an
// anko source line and a native effect on Go reference values ([]interface{}, map[interface{}]interface{},
// string - and typed slices / maps / structs for the typed part).  The script reports each step's
// observation through probe(); the reference computes what Go itself yields for the same operation.

import (
	"math"
	"encoding/json"
	"fmt"
	"os"
	"path/filepath"
	"reflect"
	"sort"
	"strings"

	"github.com/mattn/anko/env"
	"github.com/mattn/anko/vm"
)

type c10Ref struct {
	vars map[string]interface{}
	obs  []string
}

type c10Step struct {
	src string
	run func(r *c10Ref) interface{} // value observed by the step; panics stand for an error
}

type c10Val struct {
	src string
	val interface{}
}

var c10Scalars = []c10Val{{"1", int64(1)}, {"2", int64(2)}, {"7", int64(7)}, {"-3", int64(-3)}, {`"x"`, "x"}, {`"yz"`, "yz"}, {"true", true}, {"nil", nil}, {"2.5", 2.5}}

// index operands, including the out-of-range and ill-typed ones
type c10Idx struct {
	src   string
	n     int
	valid bool // an integer at all
}

func c10Indices(ln int) []c10Idx {
	return []c10Idx{{"0", 0, true}, {"1", 1, true}, {"2", 2, true}, {fmt.Sprint(ln - 1), ln - 1, true}, {fmt.Sprint(ln), ln, true},
		{fmt.Sprint(ln + 1), ln + 1, true}, {"-1", -1, true}, {`"k"`, 0, false}, {"nil", 0, false}, {"[0]", 0, false}, {"{}", 0, false},
		// the language converts an index the way toInt does: true is 1, a float is truncated, a numeral string is parsed
		{"true", 1, true}, {"false", 0, true}, {"1.9", 1, true}, {`"1"`, 1, true}, {"-0.5", 0, true},
		// a numeral string is a decimal numeral: leading zeros do not make it octal, and prefixed or underscored spellings are no numerals
		{`"02"`, 2, true}, {`"010"`, 10, true}, {`"00"`, 0, true}, {`"0x1"`, 0, false}, {`"0b1"`, 0, false}, {`"0o1"`, 0, false}, {`"1_0"`, 0, false}, {`"+1"`, 1, true}}
}

func c10Proj(x interface{}) string { return projValue(x, projDepth) }

var c10SliceVars = []string{"a", "b", "c"}
var c10MapVars = []string{"m", "n"}
var c10StrVars = []string{"s", "t"}

func (r *c10Ref) slice(v string) []interface{} {
	if x, ok := r.vars[v].([]interface{}); ok {
		return x
	}
	panic("not a slice")
}

func c10GenStep(rnd *Rand, r *c10Ref) c10Step {
	pickSl := func() string { return c10SliceVars[rnd.Intn(len(c10SliceVars))] }
	pickMap := func() string { return c10MapVars[rnd.Intn(len(c10MapVars))] }
	pickStr := func() string { return c10StrVars[rnd.Intn(len(c10StrVars))] }
	scalar := func() c10Val { return c10Scalars[rnd.Intn(len(c10Scalars))] }
	lenOf := func(v string) int {
		switch x := r.vars[v].(type) {
		case []interface{}:
			return len(x)
		case string:
			return len(x)
		}
		return 0
	}
	idx := func(v string) c10Idx { l := c10Indices(lenOf(v)); return l[rnd.Intn(len(l))] }
	toInt := func(i c10Idx) int {
		if !i.valid {
			panic("index must be a number")
		}
		return i.n
	}
	switch rnd.Pick([]int{6, 8, 8, 6, 6, 4, 3, 3, 3, 6, 6, 4, 3, 3, 4, 4, 3, 2, 4}) {
	case 0: // new literal
		v := pickSl()
		n := rnd.Intn(5)
		var parts []string
		var vals []interface{}
		for i := 0; i < n; i++ {
			s := scalar()
			parts = append(parts, s.src)
			vals = append(vals, s.val)
		}
		return c10Step{src: v + " = [" + strings.Join(parts, ", ") + "]; probe(len(" + v + "))", run: func(r *c10Ref) interface{} {
			exact := make([]interface{}, len(vals)) // a literal has capacity = length
			copy(exact, vals)
			r.vars[v] = exact
			return int64(len(vals))
		}}
	case 1: // read
		v := pickSl()
		i := idx(v)
		return c10Step{src: "probe(" + v + "[" + i.src + "])", run: func(r *c10Ref) interface{} { return r.slice(v)[toInt(i)] }}
	case 2: // write (at len: append, rebinding the variable)
		v := pickSl()
		i := idx(v)
		s := scalar()
		return c10Step{src: v + "[" + i.src + "] = " + s.src + "; probe(len(" + v + "))", run: func(r *c10Ref) interface{} {
			x := r.slice(v)
			k := toInt(i)
			if k == len(x) {
				x = append(x, s.val)
				r.vars[v] = x
			} else {
				x[k] = s.val
			}
			return int64(len(x))
		}}
	case 3: // slice with two indices
		v, w := pickSl(), pickSl()
		i, j := idx(v), idx(v)
		return c10Step{src: w + " = " + v + "[" + i.src + ":" + j.src + "]; probe(len(" + w + "))", run: func(r *c10Ref) interface{} {
			x := r.slice(v)
			b, e := toInt(i), toInt(j)
			if b < 0 || e > len(x) || e < b { // the language bounds the end by len, not by cap
				panic("index out of range")
			}
			y := x[b:e]
			r.vars[w] = y
			return int64(len(y))
		}}
	case 4: // slice with three indices
		v, w := pickSl(), pickSl()
		i, j, k := idx(v), idx(v), idx(v)
		return c10Step{src: w + " = " + v + "[" + i.src + ":" + j.src + ":" + k.src + "]; probe(len(" + w + "))", run: func(r *c10Ref) interface{} {
			x := r.slice(v)
			b, e, c := toInt(i), toInt(j), toInt(k)
			if b < 0 || e > len(x) || e < b || c < e || c > cap(x) {
				panic("index out of range")
			}
			y := x[b:e:c]
			r.vars[w] = y
			return int64(len(y))
		}}
	case 5: // alias
		v, w := pickSl(), pickSl()
		return c10Step{src: w + " = " + v + "; probe(len(" + w + "))", run: func(r *c10Ref) interface{} {
			x := r.slice(v)
			r.vars[w] = x
			return int64(len(x))
		}}
	case 6: // append with +=
		v := pickSl()
		s := scalar()
		return c10Step{src: v + " += [" + s.src + "]; probe(len(" + v + "))", run: func(r *c10Ref) interface{} {
			x := append(r.slice(v), s.val)
			r.vars[v] = x
			return int64(len(x))
		}}
	case 7: // append into another variable: shares storage when capacity allows
		v, w := pickSl(), pickSl()
		s := scalar()
		return c10Step{src: w + " = " + v + " + [" + s.src + "]; probe(len(" + w + "))", run: func(r *c10Ref) interface{} {
			x := append(r.slice(v), s.val)
			r.vars[w] = x
			return int64(len(x))
		}}
	case 18: // slice + slice
		v, u, w := pickSl(), pickSl(), pickSl()
		return c10Step{src: w + " = " + v + " + " + u + "; probe(len(" + w + "))", run: func(r *c10Ref) interface{} {
			x := append(r.slice(v), r.slice(u)...)
			r.vars[w] = x
			return int64(len(x))
		}}
	case 8: // a callee stores through its parameter
		v := pickSl()
		i := idx(v)
		s := scalar()
		return c10Step{src: "func(z) { z[" + i.src + "] = " + s.src + " }(" + v + "); probe(len(" + v + "))", run: func(r *c10Ref) interface{} {
			x := r.slice(v)
			k := toInt(i)
			if k == len(x) {
				_ = append(x, s.val) // the callee's variable is rebound, not the caller's; the cell may still be written
			} else {
				x[k] = s.val
			}
			return int64(len(x))
		}}
	case 9: // map store
		m := pickMap()
		k, s := c10MapKey(rnd), scalar()
		return c10Step{src: m + "[" + k.src + "] = " + s.src + "; probe(len(" + m + "))", run: func(r *c10Ref) interface{} {
			mm := r.vars[m].(map[interface{}]interface{})
			mm[c10Key(k)] = s.val
			return int64(len(mm))
		}}
	case 10: // map read
		m := pickMap()
		k := c10MapKey(rnd)
		return c10Step{src: "probe(" + m + "[" + k.src + "])", run: func(r *c10Ref) interface{} {
			mm := r.vars[m].(map[interface{}]interface{})
			if !c10Hashable(k.val) {
				return nil
			}
			return mm[k.val]
		}}
	case 11: // delete
		m := pickMap()
		k := c10MapKey(rnd)
		return c10Step{src: "delete(" + m + ", " + k.src + "); probe(len(" + m + "))", run: func(r *c10Ref) interface{} {
			mm := r.vars[m].(map[interface{}]interface{})
			delete(mm, c10Key(k))
			return int64(len(mm))
		}}
	case 12: // map alias / fresh map
		m, n := pickMap(), pickMap()
		if rnd.Bool() {
			return c10Step{src: n + " = " + m + "; probe(len(" + n + "))", run: func(r *c10Ref) interface{} {
				r.vars[n] = r.vars[m]
				return int64(len(r.vars[m].(map[interface{}]interface{})))
			}}
		}
		return c10Step{src: n + " = {}; probe(len(" + n + "))", run: func(r *c10Ref) interface{} {
			r.vars[n] = map[interface{}]interface{}{}
			return int64(0)
		}}
	case 13: // membership
		v := pickSl()
		s := c10Scalars[rnd.Intn(6)] // ints and strings: same-type comparisons only
		return c10Step{src: "probe(" + s.src + " in " + v + ")", run: func(r *c10Ref) interface{} {
			for _, e := range r.slice(v) {
				if e != nil && reflect.TypeOf(e) != reflect.TypeOf(s.val) && reflect.TypeOf(e).Kind() != reflect.Slice {
					panic("SKIP") // mixed-type equality is C06's subject
				}
			}
			for _, e := range r.slice(v) {
				if reflect.TypeOf(e) == reflect.TypeOf(s.val) && e == s.val {
					return true
				}
			}
			return false
		}}
	case 14: // string index / slice
		v := pickStr()
		i, j := idx(v), idx(v)
		if rnd.Bool() {
			return c10Step{src: "probe(" + v + "[" + i.src + "])", run: func(r *c10Ref) interface{} {
				x := r.vars[v].(string)
				k := toInt(i)
				return x[k : k+1] // the byte at k, as Go's x[k] (a one-byte string in the script)
			}}
		}
		return c10Step{src: "probe(" + v + "[" + i.src + ":" + j.src + "])", run: func(r *c10Ref) interface{} {
			x := r.vars[v].(string)
			return x[toInt(i):toInt(j)]
		}}
	case 15: // string element assignment: the string is rebuilt and re-assigned
		v := pickStr()
		i := idx(v)
		rep := []string{"Q", "", "uv"}[rnd.Intn(3)]
		return c10Step{src: v + "[" + i.src + "] = \"" + rep + "\"; probe(" + v + ")", run: func(r *c10Ref) interface{} {
			x := r.vars[v].(string)
			k := toInt(i)
			if k == len(x) {
				x += rep
			} else {
				_ = x[k]
				x = x[:k] + rep + x[k+1:]
			}
			r.vars[v] = x
			return x
		}}
	case 16: // lengths
		all := append(append(append([]string{}, c10SliceVars...), c10MapVars...), c10StrVars...)
		v := all[rnd.Intn(len(all))]
		return c10Step{src: "probe(len(" + v + "))", run: func(r *c10Ref) interface{} { return int64(reflect.ValueOf(r.vars[v]).Len()) }}
	}
	// member syntax on a map
	m := pickMap()
	name := []string{"x", "yz", "w"}[rnd.Intn(3)]
	if rnd.Bool() {
		s := scalar()
		return c10Step{src: m + "." + name + " = " + s.src + "; probe(len(" + m + "))", run: func(r *c10Ref) interface{} {
			mm := r.vars[m].(map[interface{}]interface{})
			mm[name] = s.val
			return int64(len(mm))
		}}
	}
	return c10Step{src: "probe(" + m + "." + name + ")", run: func(r *c10Ref) interface{} { return r.vars[m].(map[interface{}]interface{})[name] }}
}

func c10MapKey(rnd *Rand) c10Val {
	keys := []c10Val{{`"x"`, "x"}, {`"yz"`, "yz"}, {"1", int64(1)}, {"2", int64(2)}, {"true", true}, {"2.5", 2.5}, {"[1]", []interface{}{int64(1)}}, {"{}", map[interface{}]interface{}{}}}
	return keys[rnd.Pick([]int{5, 4, 4, 3, 2, 2, 2, 1})]
}

func c10Hashable(v interface{}) bool {
	switch v.(type) {
	case []interface{}, map[interface{}]interface{}:
		return false
	}
	return true
}

func c10Key(k c10Val) interface{} {
	if !c10Hashable(k.val) {
		panic("unhashable")
	}
	return k.val
}

type c10Program struct {
	Src  string `json:"src"`
	Want string `json:"want"`
}

func c10Untyped(rnd *Rand) c10Program {
	r := &c10Ref{vars: map[string]interface{}{
		"a": []interface{}{int64(1), int64(2), int64(3)}, "b": []interface{}{}, "c": []interface{}{"p", "q"},
		"m": map[interface{}]interface{}{"x": int64(1)}, "n": map[interface{}]interface{}{}, "s": "hello", "t": "hé"}}
	lines := []string{`a = [1, 2, 3]; b = []; c = ["p", "q"]; m = {"x": 1}; n = {}; s = "hello"; t = "hé"`}
	var want []string
	n := 3 + rnd.Intn(10)
	for i := 0; i < n; i++ {
		st := c10GenStep(rnd, r)
		skip := false
		var w string
		func() {
			defer func() {
				if p := recover(); p != nil {
					if p == "SKIP" {
						skip = true
						return
					}
					w = "(" + c10Proj("E") + ")"
				}
			}()
			w = "(" + c10Proj(st.run(r)) + ")"
		}()
		if skip {
			continue
		}
		lines = append(lines, "try { "+st.src+" } catch e { probe(\"E\") }")
		want = append(want, w)
	}
	// final contents
	for _, v := range []string{"a", "b", "c", "m", "n", "s", "t"} {
		lines = append(lines, "probe("+v+")")
		want = append(want, "("+c10Proj(r.vars[v])+")")
	}
	return c10Program{Src: strings.Join(lines, "\n"), Want: strings.Join(want, ";")}
}

func c10Sources(seed uint64, n int) []c10Program {
	rnd := NewRand(seed, "c10")
	out := c10DirectedUntyped()
	for len(out) < n {
		out = append(out, c10Untyped(rnd.Fork("h")))
	}
	return out
}

func c10DirectedUntyped() []c10Program {
	p := func(v interface{}) string { return "(" + c10Proj(v) + ")" }
	j := func(xs ...string) string { return strings.Join(xs, ";") }
	i := func(n int) interface{} { return int64(n) }
	return []c10Program{
		{"a = [1, 2, 3, 4]; b = a[1:3]; b[0] = 9; probe(a); probe(b)", j(p([]interface{}{i(1), i(9), i(3), i(4)}), p([]interface{}{i(9), i(3)}))},
		{"a = [1, 2, 3, 4]; b = a[0:2]; b += [7]; probe(a); probe(b)", j(p([]interface{}{i(1), i(2), i(7), i(4)}), p([]interface{}{i(1), i(2), i(7)}))},
		{"a = [1, 2, 3, 4]; b = a[0:2:2]; b += [7]; probe(a); probe(b)", j(p([]interface{}{i(1), i(2), i(3), i(4)}), p([]interface{}{i(1), i(2), i(7)}))},
		{"a = [1]; b = a; b[1] = 2; probe(a); probe(b)", j(p([]interface{}{i(1)}), p([]interface{}{i(1), i(2)}))},
		{"a = [1, 2]; r = \"ok\"; try { a[3] = 0 } catch e { r = \"E\" }; probe(r); probe(a)", j(p("E"), p([]interface{}{i(1), i(2)}))},
		{"a = [1, 2]; r = \"ok\"; try { a[-1] = 0 } catch e { r = \"E\" }; probe(r); probe(a)", j(p("E"), p([]interface{}{i(1), i(2)}))},
		{"a = [1, 2]; r = \"ok\"; try { x = a[2] } catch e { r = \"E\" }; probe(r)", p("E")},
		{"m = {}; probe(m[\"k\"]); m[\"k\"] = 1; probe(m[\"k\"]); delete(m, \"k\"); probe(m[\"k\"]); probe(len(m))", j(p(nil), p(i(1)), p(nil), p(i(0)))},
		{"m = {\"k\": 1}; r = \"ok\"; try { m[[1]] = 2 } catch e { r = \"E\" }; probe(r); probe(m[[1]]); probe(len(m))", j(p("E"), p(nil), p(i(1)))},
		{"m = {\"k\": 1}; r = \"ok\"; try { delete(m, [1]) } catch e { r = \"E\" }; probe(r); probe(len(m))", j(p("E"), p(i(1)))},
		{"m = {}; n = m; n.a = 1; probe(m.a); func(z) { z.b = 2 }(m); probe(n.b)", j(p(i(1)), p(i(2)))},
		{"s = \"hello\"; probe(s[1]); probe(s[1:3]); probe(len(s)); s[0] = \"J\"; probe(s); s[5] = \"!\"; probe(s)", j(p("e"), p("el"), p(i(5)), p("Jello"), p("Jello!"))},
		{"s = \"abc\"; r = \"ok\"; try { x = s[3] } catch e { r = \"E\" }; probe(r); try { x = s[2:5] } catch e { r = \"E2\" }; probe(r)", j(p("E"), p("E2"))},
		{"a = [1, 2, 3]; func(z) { z[0] = 5; z += [9] }(a); probe(a)", p([]interface{}{i(5), i(2), i(3)})},
		{"a = [[1, 2], [3]]; b = a[0]; b[1] = 7; probe(a)", p([]interface{}{[]interface{}{i(1), i(7)}, []interface{}{i(3)}})},
		{"a = [1, 2, 3]; probe(2 in a); probe(5 in a); probe(len(a[1:]))", j(p(true), p(false), p(i(2)))},
		// keys that are unhashable only by what they currently hold
		{"k = make(struct { A interface }); k.A = [1, 2]; m = {\"a\": 1}; r = \"ok\"; try { m[k] = 5 } catch e { r = \"E\" }; probe(r); probe(len(m)); probe(m[k]); r = \"ok\"; try { delete(m, k) } catch e { r = \"E\" }; probe(r); probe(len(m))",
			j(p("E"), p(i(1)), p(nil), p("E"), p(i(1)))},
		{"k = make(struct { A interface }); k.A = 7; m = {\"a\": 1}; m[k] = 5; probe(len(m)); probe(m[k]); delete(m, k); probe(len(m))", j(p(i(2)), p(i(5)), p(i(1)))},
		{"k = make(struct { A interface }); k.A = {\"z\": 1}; m = make(map[interface]int64); r = \"ok\"; try { m[k] = 5 } catch e { r = \"E\" }; probe(r); probe(len(m))", j(p("E"), p(i(0)))},
		{"f = func() { }; m = {}; r = \"ok\"; try { m[f] = 1 } catch e { r = \"E\" }; probe(r); probe(m[f]); probe(len(m))", j(p("E"), p(nil), p(i(0)))},
		{"a = [1, 2, 3]; b = []; b += a; b[0] = 9; probe(a); probe(b)", j(p([]interface{}{i(1), i(2), i(3)}), p([]interface{}{i(9), i(2), i(3)}))},
		{"a = [1, 2, 3]; a += [4]; b = a[0:2]; b += [9]; probe(a); probe(b)", j(p([]interface{}{i(1), i(2), i(9), i(4)}), p([]interface{}{i(1), i(2), i(9)}))},
		{"a = make([]interface, 2, 8); b = a[0:2]; b += [\"x\"]; a += [\"y\"]; probe(b[2])", p("y")},
		{"a = make([]interface, 2, 8); b = a[1:2]; b[1] = \"x\"; a += [\"y\"]; probe(b); probe(len(a))", j(p([]interface{}{nil, "y"}), p(i(3)))},
		{"a = [1, 2, 3, 4]; b = a[1:2]; r = \"ok\"; try { c = b[0:3] } catch e { r = \"E\" }; probe(r)", p("E")},
		{"src = [1, 2, 3, 4]; w = src[0:0]; w += [7, 8]; probe(src); probe(w)", j(p([]interface{}{i(7), i(8), i(3), i(4)}), p([]interface{}{i(7), i(8)}))},
	}
}

// ---------------- typed containers and struct values: implementation against native Go ----------------
type c10Problem struct {
	Src     string `json:"src"`
	Step    string `json:"step"`
	Got     string `json:"got"`
	Want    string `json:"want"`
	History string `json:"history"`
}

func c10ProjT(x interface{}) string { return c10ProjWith(x, false) }

// c10ProjWith: floatBits prints floats by their bit pattern (for comparisons with the Coq model, which has no float printer)
func c10ProjWith(x interface{}, floatBits bool) string {
	if x == nil {
		return "nil"
	}
	if e, ok := x.(error); ok {
		return "error:" + e.Error()
	}
	rv := reflect.ValueOf(x)
	switch rv.Kind() {
	case reflect.Slice:
		var p []string
		for i := 0; i < rv.Len(); i++ {
			p = append(p, c10ProjWith(rv.Index(i).Interface(), floatBits))
		}
		return rv.Type().String() + "[" + strings.Join(p, ",") + "]"
	case reflect.Map:
		var p []string
		for _, k := range rv.MapKeys() {
			p = append(p, c10ProjWith(k.Interface(), floatBits)+"=>"+c10ProjWith(rv.MapIndex(k).Interface(), floatBits))
		}
		sort.Strings(p)
		return rv.Type().String() + "{" + strings.Join(p, ",") + "}"
	case reflect.Struct:
		var p []string
		for i := 0; i < rv.NumField(); i++ {
			p = append(p, rv.Type().Field(i).Name+":"+c10ProjWith(rv.Field(i).Interface(), floatBits))
		}
		return "struct{" + strings.Join(p, ",") + "}"
	case reflect.Ptr:
		if rv.IsNil() {
			return "nilptr"
		}
		return "&" + c10ProjWith(rv.Elem().Interface(), floatBits)
	}
	if floatBits {
		switch f := x.(type) {
		case float64:
			return fmt.Sprintf("float64:b%d", math.Float64bits(f))
		case float32:
			return fmt.Sprintf("float32:b%d", math.Float32bits(f))
		}
	}
	return fmt.Sprintf("%s:%v", rv.Type(), x)
}

// the value a typed cell of type t holds after `cell = v`: Go's conversion, or a panic (error)
func c10Convert(v interface{}, t reflect.Type) reflect.Value {
	if v == nil {
		return reflect.Zero(t) // nil stores the zero value of the declared type
	}
	rv := reflect.ValueOf(v)
	if rv.Type() == t {
		return rv
	}
	if t.Kind() == reflect.Interface {
		return rv
	}
	// containers convert element by element
	if t.Kind() == reflect.Slice && rv.Kind() == reflect.Slice {
		out := reflect.MakeSlice(t, rv.Len(), rv.Len())
		for i := 0; i < rv.Len(); i++ {
			out.Index(i).Set(c10Convert(rv.Index(i).Interface(), t.Elem()))
		}
		return out
	}
	if t.Kind() == reflect.Map && rv.Kind() == reflect.Map {
		out := reflect.MakeMap(t)
		for _, k := range rv.MapKeys() {
			out.SetMapIndex(c10Convert(k.Interface(), t.Key()), c10Convert(rv.MapIndex(k).Interface(), t.Elem()))
		}
		return out
	}
	if !rv.Type().ConvertibleTo(t) {
		panic("not convertible")
	}
	if t.Kind() == reflect.String && rv.Kind() != reflect.String {
		// Go converts an integer to the string holding that rune
		return rv.Convert(t)
	}
	return rv.Convert(t)
}

type c10TVar struct {
	name string
	mk   string       // script expression creating it
	val  func() interface{}
}

func c10Typed(rnd *Rand) (string, []string, []string) {
	// returns source, expected observations, step descriptions
	type cell struct {
		name string
		ref  reflect.Value
	}
	elemVals := []c10Val{{"1", int64(1)}, {"-4", int64(-4)}, {"2.5", 2.5}, {`"x"`, "x"}, {"true", true}, {"65", int64(65)}, {"3.0", 3.0}, {`"12"`, "12"}, {"nil", nil}}
	if rnd.Chance(1, 4) {
		return c10Struct(rnd)
	}
	kinds := []struct {
		mk  string
		val interface{}
	}{
		{"make([]int64, 2)", make([]int64, 2)}, {"[]int64{5, 6, 7}", []int64{5, 6, 7}}, {"make([]string, 1)", make([]string, 1)}, {"[]string{\"a\", \"b\"}", []string{"a", "b"}},
		{"make([]float64, 2)", make([]float64, 2)}, {"make([]bool, 1)", make([]bool, 1)}, {"[]interface{1, \"z\"}", []interface{}{int64(1), "z"}},
		{"map[string]int64{\"a\": 1}", map[string]int64{"a": 1}}, {"make(map[string]int64)", map[string]int64{}}, {"map[int64]string{1: \"one\"}", map[int64]string{1: "one"}},
		{"make(map[string]interface)", map[string]interface{}{}},
	}
	k := kinds[rnd.Intn(len(kinds))]
	cur := reflect.ValueOf(k.val)
	lines := []string{"v = " + k.mk, "probe(v)"}
	want := []string{"(" + c10ProjT(cur.Interface()) + ")"}
	descr := []string{"create " + k.mk}
	n := 2 + rnd.Intn(7)
	for i := 0; i < n; i++ {
		ev := elemVals[rnd.Intn(len(elemVals))]
		var src string
		var eff func() interface{}
		if cur.Kind() == reflect.Slice {
			ixs := []int{0, 1, cur.Len() - 1, cur.Len(), cur.Len() + 1, -1}
			ix := ixs[rnd.Intn(len(ixs))]
			switch rnd.Intn(5) {
			case 0, 1:
				src = fmt.Sprintf("v[%d] = %s; probe(v)", ix, ev.src)
				eff = func() interface{} {
					c := c10Convert(ev.val, cur.Type().Elem())
					if ix == cur.Len() {
						cur = reflect.Append(cur, c)
					} else {
						cur.Index(ix).Set(c)
					}
					return cur.Interface()
				}
			case 2:
				src = fmt.Sprintf("probe(v[%d])", ix)
				eff = func() interface{} { return cur.Index(ix).Interface() }
			case 3:
				src = fmt.Sprintf("v += [%s]; probe(v)", ev.src)
				eff = func() interface{} {
					cur = reflect.Append(cur, c10Convert(ev.val, cur.Type().Elem()))
					return cur.Interface()
				}
			case 4:
				jx := ixs[rnd.Intn(len(ixs))]
				src = fmt.Sprintf("w = v[%d:%d]; probe(w); probe(len(v))", ix, jx)
				eff = func() interface{} {
					if ix < 0 || jx > cur.Len() || jx < ix {
						panic("range")
					}
					return cur.Slice(ix, jx).Interface()
				}
			}
		} else {
			keys := []c10Val{{`"a"`, "a"}, {`"b"`, "b"}, {"1", int64(1)}, {"2", int64(2)}, {"2.5", 2.5}}
			kv := keys[rnd.Intn(len(keys))]
			switch rnd.Intn(4) {
			case 0, 1:
				src = fmt.Sprintf("v[%s] = %s; probe(v)", kv.src, ev.src)
				eff = func() interface{} {
					kk := c10Convert(kv.val, cur.Type().Key())
					vv := c10Convert(ev.val, cur.Type().Elem())
					cur.SetMapIndex(kk, vv)
					return cur.Interface()
				}
			case 2:
				src = fmt.Sprintf("probe(v[%s])", kv.src)
				eff = func() (out interface{}) {
					defer func() {
						if recover() != nil { // a key that cannot be a key of this map is simply missing
							out = nil
						}
					}()
					kk := c10Convert(kv.val, cur.Type().Key())
					r := cur.MapIndex(kk)
					if !r.IsValid() {
						return nil
					}
					return r.Interface()
				}
			case 3:
				src = fmt.Sprintf("delete(v, %s); probe(v)", kv.src)
				eff = func() interface{} {
					kk := c10Convert(kv.val, cur.Type().Key())
					cur.SetMapIndex(kk, reflect.Value{})
					return cur.Interface()
				}
			}
		}
		lines = append(lines, "try { "+src+" } catch e { probe(\"E\") }")
		descr = append(descr, src)
		func() {
			defer func() {
				if p := recover(); p != nil {
					want = append(want, "("+c10ProjT("E")+")")
				}
			}()
			o := eff()
			if strings.Contains(src, "probe(len(v))") {
				want = append(want, "("+c10ProjT(o)+")", "("+c10ProjT(int64(cur.Len()))+")")
			} else {
				want = append(want, "("+c10ProjT(o)+")")
			}
		}()
	}
	lines = append(lines, "probe(v)")
	want = append(want, "("+c10ProjT(cur.Interface())+")")
	return strings.Join(lines, "\n"), want, descr
}

// struct values made with make: every field holds a value of its declared type
func c10Struct(rnd *Rand) (string, []string, []string) {
	type fld struct {
		name string
		cell reflect.Value
	}
	mk := func() []fld {
		return []fld{{"A", reflect.New(reflect.TypeOf(int64(0))).Elem()}, {"B", reflect.New(reflect.TypeOf("")).Elem()}, {"F", reflect.New(reflect.TypeOf(0.0)).Elem()},
			{"G", reflect.New(reflect.TypeOf(false)).Elem()}, {"L", reflect.New(reflect.TypeOf([]int64{})).Elem()}, {"M", reflect.New(reflect.TypeOf(map[string]int64{})).Elem()}}
	}
	fields := mk()
	get := func(n string) reflect.Value {
		for _, f := range fields {
			if f.name == n {
				return f.cell
			}
		}
		panic("no member")
	}
	vals := []c10Val{{"1", int64(1)}, {"-4", int64(-4)}, {"2.5", 2.5}, {`"x"`, "x"}, {"true", true}, {"65", int64(65)}, {"nil", nil},
		{"[1, 2.5]", []interface{}{int64(1), 2.5}}, {`[1, "x"]`, []interface{}{int64(1), "x"}}, {`{"a": 1}`, map[interface{}]interface{}{"a": int64(1)}}, {`{"a": "q"}`, map[interface{}]interface{}{"a": "q"}}, {"[]", []interface{}{}}}
	names := []string{"A", "B", "F", "G", "L", "M", "Z"}
	lines := []string{"v = make(struct { A int64, B string, F float64, G bool, L []int64, M map[string]int64 })", "w = v"}
	var want, descr []string
	descr = append(descr, "struct value")
	n := 3 + rnd.Intn(8)
	for i := 0; i < n; i++ {
		f := names[rnd.Pick([]int{4, 4, 3, 3, 4, 4, 2})]
		val := vals[rnd.Intn(len(vals))]
		recv := []string{"v", "w"}[rnd.Intn(2)] // w aliases v
		var src string
		var eff func() interface{}
		switch rnd.Intn(5) {
		case 0, 1:
			src = fmt.Sprintf("%s.%s = %s; probe(v.%s)", recv, f, val.src, f)
			eff = func() interface{} {
				c := get(f)
				c.Set(c10Convert(val.val, c.Type()))
				return c.Interface()
			}
		case 2:
			src = fmt.Sprintf("probe(%s.%s)", recv, f)
			eff = func() interface{} { return get(f).Interface() }
		case 3:
			ix := []int{0, 1, -1, 5}[rnd.Intn(4)]
			src = fmt.Sprintf("%s.L[%d] = %s; probe(v.L)", recv, ix, val.src)
			eff = func() interface{} {
				c := get("L")
				e := c10Convert(val.val, c.Type().Elem())
				if ix == c.Len() {
					c.Set(reflect.Append(c, e))
				} else {
					c.Index(ix).Set(e)
				}
				return c.Interface()
			}
		case 4:
			src = fmt.Sprintf("%s.M[\"k%d\"] = %s; probe(v.M)", recv, rnd.Intn(2), val.src)
			key := src[strings.Index(src, "[\"")+2 : strings.Index(src, "\"]")]
			eff = func() interface{} {
				c := get("M")
				e := c10Convert(val.val, c.Type().Elem())
				if c.IsNil() {
					c.Set(reflect.MakeMap(c.Type()))
				}
				c.SetMapIndex(reflect.ValueOf(key), e)
				return c.Interface()
			}
		}
		lines = append(lines, "try { "+src+" } catch e { probe(\"E\") }")
		descr = append(descr, src)
		func() {
			defer func() {
				if p := recover(); p != nil {
					want = append(want, "("+c10ProjT("E")+")")
				}
			}()
			want = append(want, "("+c10ProjT(eff())+")")
		}()
	}
	for _, f := range fields {
		lines = append(lines, "probe(v."+f.name+")")
		want = append(want, "("+c10ProjT(f.cell.Interface())+")")
	}
	return strings.Join(lines, "\n"), want, descr
}

func c10RunTyped(src string) []string { return c10RunTypedWith(src, false) }

func c10RunTypedWith(src string, floatBits bool) []string {
	e := env.NewEnv()
	var trace []string
	e.Define("probe", func(x interface{}) interface{} { trace = append(trace, "("+c10ProjWith(x, floatBits)+")"); return x })
	e.DefineType("int8", int8(0))
	e.DefineType("uint8", uint8(0))
	e.DefineType("uint16", uint16(0))
	func() {
		defer func() {
			if p := recover(); p != nil {
				trace = append(trace, "PANIC "+fmt.Sprint(p))
			}
		}()
		_, err := vm.Execute(e, nil, src)
		if err != nil {
			trace = append(trace, "ERROR "+err.Error())
		}
	}()
	return trace
}

func c10Main(seed uint64, n int, outDir string) error {
	progs := c10Sources(seed, n)
	rnd := NewRand(seed, "c10typed")
	var problems []c10Problem
	typedCount := 0
	kinds := map[string]int{}
	for i := 0; i < n; i++ {
		src, want, descr := c10Typed(rnd.Fork("t"))
		typedCount++
		kinds[strings.SplitN(descr[0], "(", 2)[0]]++
		got := c10RunTyped(src)
		for k := 0; k < len(want) || k < len(got); k++ {
			g, w := "<missing>", "<missing>"
			if k < len(got) {
				g = got[k]
			}
			if k < len(want) {
				w = want[k]
			}
			if g != w {
				problems = append(problems, c10Problem{Src: src, Step: fmt.Sprintf("observation %d", k), Got: g, Want: w, History: strings.Join(descr, " | ")})
				break
			}
		}
	}
	var tcases []c10tCase
	trnd := NewRand(seed, "c10t")
	for i := 0; i < n; i++ {
		tcases = append(tcases, c10tGen(trnd.Fork("h")))
	}
	mb, _ := json.Marshal(map[string]interface{}{"untyped": progs, "typed_problems": problems, "typed_count": typedCount, "typed_kinds": kinds, "typed_model": tcases})
	return os.WriteFile(filepath.Join(outDir, "c10.json"), mb, 0o644)
}
