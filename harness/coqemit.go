package main

import (
	"fmt"
	"strings"
)

// Coq string literal: a double quote is doubled; only printable ASCII is
// emitted literally (generators for literal-emitted strings keep to it).
func coqStr(s string) string {
	for _, c := range []byte(s) {
		if c < 32 || c > 126 {
			panic(fmt.Sprintf("coqStr: non printable byte in %q", s))
		}
	}
	return `"` + strings.ReplaceAll(s, `"`, `""`) + `"`
}

func coqList(items []string) string {
	return "[" + strings.Join(items, "; ") + "]"
}

func coqBool(b bool) string {
	if b {
		return "true"
	}
	return "false"
}

func coqOptNat(x int) string {
	if x < 0 {
		return "None"
	}
	return fmt.Sprintf("(Some %d)", x)
}

func coqZ(z int64) string {
	if z < 0 {
		return fmt.Sprintf("(%d)%%Z", z)
	}
	return fmt.Sprintf("%d%%Z", z)
}
