package main

// Registry of the AST node types of package ast and reflection helpers shared
// by the checks that look at parsed trees (C03, C14, C15, C17).

import (
	"go/ast"
	"go/parser"
	"go/token"
	"os"
	"path/filepath"
	"reflect"
	"sort"
	"strings"

	anko "github.com/mattn/anko/ast"
)

// every node type of ast/{stmt,expr,operator}.go; completeness of this list is
// checked against the source by astSourceKinds (a missing entry is a CheckError,
// not a verdict)
var astNodeProtos = []interface{}{
	&anko.StmtsStmt{}, &anko.ExprStmt{}, &anko.IfStmt{}, &anko.TryStmt{}, &anko.ForStmt{}, &anko.CForStmt{},
	&anko.LoopStmt{}, &anko.BreakStmt{}, &anko.ContinueStmt{}, &anko.ReturnStmt{}, &anko.ThrowStmt{},
	&anko.ModuleStmt{}, &anko.SwitchStmt{}, &anko.SwitchCaseStmt{}, &anko.VarStmt{}, &anko.LetsStmt{},
	&anko.LetMapItemStmt{}, &anko.GoroutineStmt{}, &anko.DeferStmt{}, &anko.DeleteStmt{}, &anko.CloseStmt{},
	&anko.ChanStmt{},
	&anko.OpExpr{}, &anko.LiteralExpr{}, &anko.ArrayExpr{}, &anko.MapExpr{}, &anko.IdentExpr{}, &anko.UnaryExpr{},
	&anko.AddrExpr{}, &anko.DerefExpr{}, &anko.ParenExpr{}, &anko.NilCoalescingOpExpr{}, &anko.TernaryOpExpr{},
	&anko.CallExpr{}, &anko.AnonCallExpr{}, &anko.MemberExpr{}, &anko.ItemExpr{}, &anko.SliceExpr{},
	&anko.FuncExpr{}, &anko.LetsExpr{}, &anko.ChanExpr{}, &anko.ImportExpr{}, &anko.MakeExpr{},
	&anko.MakeTypeExpr{}, &anko.LenExpr{}, &anko.IncludeExpr{},
	&anko.BinaryOperator{}, &anko.ComparisonOperator{}, &anko.AddOperator{}, &anko.MultiplyOperator{},
}

var (
	exprIface = reflect.TypeOf((*anko.Expr)(nil)).Elem()
	stmtIface = reflect.TypeOf((*anko.Stmt)(nil)).Elem()
	opIface   = reflect.TypeOf((*anko.Operator)(nil)).Elem()
)

type astField struct {
	Name  string
	Index int
	Class string // Expr Stmt Operator
	Slice bool
}

type astKind struct {
	Name   string
	Type   reflect.Type // struct type
	Fields []astField   // child fields in declaration order
	Class  string       // Stmt Expr Operator (by the embedded Impl)
}

var astKinds []astKind
var astKindIndex = map[reflect.Type]int{}

func init() {
	for _, p := range astNodeProtos {
		astRegister(reflect.TypeOf(p).Elem())
	}
}

// astRegister adds a node struct type of package ast to the kind table (also used for
// node types that are not in astNodeProtos but turn up in parsed trees).
func astRegister(t reflect.Type) int {
	if k, ok := astKindIndex[t]; ok {
		return k
	}
	k := astKind{Name: t.Name(), Type: t}
	for i := 0; i < t.NumField(); i++ {
		f := t.Field(i)
		if f.Anonymous {
			switch f.Type.Name() {
			case "StmtImpl":
				k.Class = "Stmt"
			case "ExprImpl":
				k.Class = "Expr"
			case "OperatorImpl":
				k.Class = "Operator"
			}
			continue
		}
		ft := f.Type
		slice := false
		if ft.Kind() == reflect.Slice {
			ft = ft.Elem()
			slice = true
		}
		if ft.Kind() != reflect.Interface {
			continue
		}
		cls := ""
		switch ft {
		case exprIface:
			cls = "Expr"
		case stmtIface:
			cls = "Stmt"
		case opIface:
			cls = "Operator"
		}
		if cls == "" {
			continue
		}
		k.Fields = append(k.Fields, astField{Name: f.Name, Index: i, Class: cls, Slice: slice})
	}
	astKindIndex[t] = len(astKinds)
	astKinds = append(astKinds, k)
	return len(astKinds) - 1
}

func isAstNodeType(t reflect.Type) bool {
	if t.Kind() != reflect.Struct || !strings.HasSuffix(t.PkgPath(), "/ast") {
		return false
	}
	for i := 0; i < t.NumField(); i++ {
		f := t.Field(i)
		if f.Anonymous && (f.Type.Name() == "StmtImpl" || f.Type.Name() == "ExprImpl" || f.Type.Name() == "OperatorImpl") {
			return true
		}
	}
	return false
}

// astSourceKinds parses <repo>/ast/*.go and returns, for every struct type that
// embeds StmtImpl/ExprImpl/OperatorImpl, its child fields with their declared class.
func astSourceKinds(repo string) (map[string][]astField, error) {
	fset := token.NewFileSet()
	out := map[string][]astField{}
	files, _ := filepath.Glob(filepath.Join(repo, "ast", "*.go"))
	sort.Strings(files)
	for _, fn := range files {
		src, err := os.ReadFile(fn)
		if err != nil {
			return nil, err
		}
		f, err := parser.ParseFile(fset, fn, src, 0)
		if err != nil {
			return nil, err
		}
		for _, d := range f.Decls {
			gd, ok := d.(*ast.GenDecl)
			if !ok {
				continue
			}
			for _, sp := range gd.Specs {
				ts, ok := sp.(*ast.TypeSpec)
				if !ok {
					continue
				}
				st, ok := ts.Type.(*ast.StructType)
				if !ok {
					continue
				}
				isNode := false
				var fields []astField
				idx := 0
				for _, fl := range st.Fields.List {
					if len(fl.Names) == 0 {
						if id, ok := fl.Type.(*ast.Ident); ok && (id.Name == "StmtImpl" || id.Name == "ExprImpl" || id.Name == "OperatorImpl") {
							isNode = true
						}
						idx++
						continue
					}
					for _, nm := range fl.Names {
						cls, slice := "", false
						switch t := fl.Type.(type) {
						case *ast.Ident:
							cls = t.Name
						case *ast.ArrayType:
							if id, ok := t.Elt.(*ast.Ident); ok && t.Len == nil {
								cls, slice = id.Name, true
							}
						}
						if cls == "Expr" || cls == "Stmt" || cls == "Operator" {
							fields = append(fields, astField{Name: nm.Name, Index: idx, Class: cls, Slice: slice})
						}
						idx++
					}
				}
				if isNode && ts.Name.Name != "StmtImpl" && ts.Name.Name != "ExprImpl" && ts.Name.Name != "OperatorImpl" {
					out[ts.Name.Name] = fields
				}
			}
		}
	}
	return out, nil
}

// children of a node by reflection, grouped by child field (nil children dropped)
func astChildren(n interface{}) (kind int, groups [][]interface{}) {
	v := reflect.ValueOf(n)
	if v.Kind() != reflect.Ptr || v.IsNil() {
		return -1, nil
	}
	k, ok := astKindIndex[v.Type().Elem()]
	if !ok {
		if !isAstNodeType(v.Type().Elem()) {
			return -1, nil
		}
		k = astRegister(v.Type().Elem())
	}
	s := v.Elem()
	for _, f := range astKinds[k].Fields {
		fv := s.Field(f.Index)
		var g []interface{}
		if f.Slice {
			for i := 0; i < fv.Len(); i++ {
				e := fv.Index(i)
				if !e.IsNil() && !(e.Elem().Kind() == reflect.Ptr && e.Elem().IsNil()) {
					g = append(g, e.Interface())
				}
			}
		} else if !fv.IsNil() && !(fv.Elem().Kind() == reflect.Ptr && fv.Elem().IsNil()) {
			g = append(g, fv.Interface())
		}
		groups = append(groups, g)
	}
	return k, groups
}
