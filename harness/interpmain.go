package main

import (
	"fmt"
	"encoding/json"
	"os"
	"path/filepath"
	"strings"
)

// interpMain writes cases for the interpreter correspondence: one driver line
// and one JSON record per program.
// interpSrcFile runs the sources of a JSON list file (directed expectations of a check)
func interpSrcFile(path, outDir string) error {
	b, err := os.ReadFile(path)
	if err != nil {
		return err
	}
	var srcs []string
	if err := json.Unmarshal(b, &srcs); err != nil {
		return err
	}
	var sb strings.Builder
	f, err := os.Create(filepath.Join(outDir, "directed.jsonl"))
	if err != nil {
		return err
	}
	defer f.Close()
	enc := json.NewEncoder(f)
	for _, src := range srcs {
		// a first line "#cancel=K" runs the program under a context that is cancelled at its K-th poll
		cancelAt := -1
		if strings.HasPrefix(src, "#cancel=") {
			nl := strings.Index(src, "\n")
			if nl > 0 {
				fmt.Sscanf(src[len("#cancel="):nl], "%d", &cancelAt)
				src = src[nl+1:]
			}
		}
		if strings.HasPrefix(src, "#plain\n") {
			cancelAt, src = interpPlain, src[len("#plain\n"):]
		}
		line, c, ok := interpLine(src, cancelAt)
		if !ok {
			line = "interp (undecodable)"
		}
		sb.WriteString(line + "\n")
		enc.Encode(c)
	}
	return os.WriteFile(filepath.Join(outDir, "directed.sx"), []byte(sb.String()), 0o644)
}

func interpMain(seed uint64, n int, outDir, gen string) error {
	rnd := NewRand(seed, "interp-"+gen)
	var sb strings.Builder
	f, err := os.Create(filepath.Join(outDir, "cases.jsonl"))
	if err != nil {
		return err
	}
	defer f.Close()
	enc := json.NewEncoder(f)
	kinds := map[string]int{}
	parseFail := 0
	count := 0
	seen := map[string]bool{}
	distinct := 0
	var product []string
	switch gen {
	case "c04":
		product = append(c04Invocations(), c04Product()...)
	case "c09":
		product = c09Product()
	case "c06":
		product = c06Product()
		if n > len(product) {
			n = len(product)
		}
	case "c05":
		product = c05Product(rnd.Fork("c05"), n)
	case "c10":
		for _, p := range c10Sources(seed, n) {
			product = append(product, p.Src)
		}
	}
	if gen == "c02" {
		// every program x every cancellation instant 0..kmax
		kmax := 40
		if n > 20000 {
			kmax = 120
		}
		progs := c02Programs()
		for _, src := range progs {
			for k := 0; k <= kmax; k++ {
				line, c, ok := interpLine(src, k)
				if !ok {
					parseFail++
					break
				}
				sb.WriteString(line + "\n")
				enc.Encode(c)
				count++
				if c.Impl.Status == "crash" {
					break // the later instants of a program that takes the process down would do the same
				}
			}
			kinds["program"]++
		}
		distinct = len(progs)
		n = 0
	}
	if gen == "c20" {
		maxLen, pct := 2, 25
		if n > 50000 {
			maxLen, pct = 3, 6
		}
		for _, p := range c20Programs(maxLen, rnd.Fork("c20"), pct) {
			line, c, ok := interpLine(p.src, -1)
			if !ok {
				parseFail++
				c.Tags = p.tags
				c.Impl.Status = "parse-error"
				line = "interp (undecodable)"
			}
			c.Tags = p.tags
			sb.WriteString(line + "\n")
			enc.Encode(c)
			count++
		}
		distinct = count
		n = 0
	}
	c07 := &c07Gen{r: rnd.Fork("c07")}
	for count < n {
		var src string
		switch {
		case count < len(product):
			src = product[count]
			kinds["product"]++
		case gen == "c07" && count%2 == 0:
			src = c07.program()
			kinds["probe-tree"]++
		}
		if src == "" {
			switch gen {
			case "src":
				g := newSrcGen(rnd.Fork("p"))
				src = g.program(1 + rnd.Intn(3))
				for k, v := range g.kinds {
					kinds[k] += v
				}
			default:
				g := newSemGen(rnd.Fork("p"), gen)
				src = g.program()
				for k, v := range g.kinds {
					kinds[k] += v
				}
			}
		}
		cancelAt := -1
		if gen == "src" {
			cancelAt = 150 + rnd.Intn(100) // full-grammar programs need not terminate
		}
		line, c, ok := interpLine(src, cancelAt)
		if !ok {
			parseFail++
			if parseFail > 20*n+1000 {
				break
			}
			continue
		}
		if !seen[src] && len(c.Impl.Trace) > 0 {
			distinct++
		}
		seen[src] = true
		sb.WriteString(line + "\n")
		enc.Encode(c)
		count++
	}
	if err := os.WriteFile(filepath.Join(outDir, "cases.sx"), []byte(sb.String()), 0o644); err != nil {
		return err
	}
	meta := map[string]interface{}{"cases": count, "parse_failures": parseFail, "constructs": kinds, "distinct_nontrivial": distinct}
	mb, _ := json.MarshalIndent(meta, "", " ")
	return os.WriteFile(filepath.Join(outDir, "meta.json"), mb, 0o644)
}
